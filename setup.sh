#!/bin/sh
# Builds the framework from files on disk only (offline) and warms the build cache.
set -e
cd "$(dirname "$0")"
export GOFLAGS=-mod=mod GOPROXY=off GOSUMDB=off GOTOOLCHAIN=local
mkdir -p bin evidence replays
(cd tools/instrument && go1.26.8 build -o ../../bin/instrument .)
(cd tools/crashsup && go build -o ../../bin/crashsup .)
./check build
