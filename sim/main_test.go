package sim

import (
	"encoding/json"
	"fmt"
	"io"
	"net/http"
	"os"
	"path/filepath"
	"strconv"
	"strings"
	"testing"
	"time"

	"github.com/sirupsen/logrus"
	"verif/simrt"
)

func envInt(k string, def int64) int64 {
	if v := os.Getenv(k); v != "" {
		if n, err := strconv.ParseInt(v, 10, 64); err == nil {
			return n
		}
	}
	return def
}

// ReplayFile is what a violation is reported as.
type ReplayFile struct {
	Property  string     `json:"property"`
	Engine    string     `json:"engine"`
	Seed      uint64     `json:"verif_seed"`
	RunIndex  int64      `json:"run_index"`
	Signature string     `json:"signature"`
	Violation *Violation `json:"violation"`
	TraceHash uint64     `json:"trace_hash"`
	Original  int        `json:"original_ops"`
	Minimised int        `json:"minimised_ops"`
	Script    *Script    `json:"script"`
}

type outLine struct {
	Kind      string   `json:"kind"` // run | violation | infra | done
	I         int64    `json:"i"`
	Seed      uint64   `json:"seed"`
	Engine    string   `json:"engine,omitempty"`
	Res       *Result  `json:"res,omitempty"`
	Replay    string   `json:"replay,omitempty"`
	Sig       string   `json:"sig,omitempty"`
	Msg       string   `json:"msg,omitempty"`
	Ops       []string `json:"ops,omitempty"`
	Script    *Script  `json:"script,omitempty"`
	Next      int64    `json:"next,omitempty"`
	Wall      float64  `json:"wall_s,omitempty"`
	ReplayDet bool     `json:"replay_deterministic,omitempty"`
}

func setupLogging() {
	logrus.SetOutput(io.Discard)
	if os.Getenv("VERIF_LOG") != "" {
		logrus.SetOutput(os.Stderr)
	}
	logrus.StandardLogger().ExitFunc = simrt.ExitCurrentNode
	// every HTTP client in jiva uses http.DefaultClient or &http.Client{Timeout}: both fall back to DefaultTransport
	http.DefaultTransport = simrt.Transport{}
}

func TestSim(t *testing.T) {
	mode := os.Getenv("VERIF_MODE")
	if mode == "" {
		t.Skip("VERIF_MODE not set")
	}
	setupLogging()
	if os.Getenv("VERIF_LOG") == "" {
		// jiva's HTTP access log goes to os.Stdout: silence it
		if dn, err := os.OpenFile(os.DevNull, os.O_WRONLY, 0); err == nil {
			os.Stdout = dn
		}
	}
	switch mode {
	case "worker":
		worker(t)
	case "replay":
		replay(t)
	case "victim":
		victim(t)
	default:
		t.Fatalf("unknown VERIF_MODE %q", mode)
	}
}

func pickEngine(prop string, i int64) Engine {
	names := propEngines[prop]
	if e := os.Getenv("VERIF_ENGINE"); e != "" {
		return engines[e]
	}
	if len(names) == 0 {
		return nil
	}
	return engines[names[int(i)%len(names)]]
}

func worker(t *testing.T) {
	prop := os.Getenv("VERIF_PROP")
	tier := os.Getenv("VERIF_TIER")
	seed := uint64(envInt("VERIF_SEED", 1))
	wk, nw := envInt("VERIF_WORKER", 0), envInt("VERIF_WORKERS", 1)
	start := envInt("VERIF_START", wk)
	maxRuns := envInt("VERIF_MAXRUNS", 1<<40)     // global run-index cap
	perProc := envInt("VERIF_RUNS_PER_PROC", 200) // leak control
	budget := time.Duration(envInt("VERIF_BUDGET_S", 60)) * time.Second
	shrinkBudget := time.Duration(envInt("VERIF_SHRINK_S", 45)) * time.Second
	out, err := os.OpenFile(os.Getenv("VERIF_OUT"), os.O_CREATE|os.O_WRONLY|os.O_APPEND, 0644)
	if err != nil {
		t.Fatal(err)
	}
	defer out.Close()
	emit := func(l outLine) {
		b, _ := json.Marshal(l)
		out.Write(append(b, '\n'))
	}
	deadline := time.Unix(envInt("VERIF_DEADLINE_UNIX", time.Now().Add(budget).Unix()), 0)
	replayDir := os.Getenv("VERIF_REPLAY_DIR")
	nviol := 0
	i := start
	n := int64(0)
	for ; i < maxRuns && n < perProc && time.Now().Before(deadline) && nviol < 2; i, n = i+nw, n+1 {
		e := pickEngine(prop, i)
		if e == nil {
			t.Fatalf("no engine for %s", prop)
		}
		rseed := Mix(seed, prop, e.Name(), i)
		s := e.Generate(NewRand(rseed), prop, tier)
		s.Seed = rseed
		s.Prop = prop
		t0 := time.Now()
		// "start" lets the driver attribute a process death (runtime fatal error: out of memory under the
		// worker's address-space limit) to the script that was running; the script travels with it
		// (kept in a side file that is overwritten for every run, not in the result stream)
		if cb, err := json.Marshal(outLine{Kind: "start", I: i, Seed: rseed, Engine: e.Name(), Script: s}); err == nil {
			os.WriteFile(os.Getenv("VERIF_OUT")+".cur", cb, 0644)
		}
		res := e.Run(t, s)
		if n%25 == 3 && res.Infra == "" && res.V == nil {
			// determinism sample: the same script again must give the same event trace
			r2 := e.Run(t, s)
			res.stat("determinism_sampled", 1)
			if r2.TraceHash == res.TraceHash && r2.V == nil {
				res.stat("determinism_same_trace", 1)
			} else if r2.Shape == res.Shape && r2.V == nil {
				res.stat("determinism_same_outcomes_different_trace", 1)
			} else {
				res.stat("determinism_different_outcomes", 1)
				v2 := ""
				if r2.V != nil {
					v2 = r2.V.Sig() + ": " + r2.V.Msg
				}
				emit(outLine{Kind: "nondet", I: i, Seed: rseed, Msg: fmt.Sprintf("second run of the same script: shape %d vs %d, violation %q other %q", res.Shape, r2.Shape, v2, r2.Other), Script: s})
			}
		}
		l := outLine{Kind: "run", I: i, Seed: rseed, Engine: e.Name(), Res: res, Wall: time.Since(t0).Seconds()}
		if n < 2 {
			for _, o := range s.Ops {
				l.Ops = append(l.Ops, o.String())
			}
		}
		emit(l)
		if res.Infra != "" {
			emit(outLine{Kind: "infra", I: i, Seed: rseed, Msg: res.Infra, Script: s})
			continue
		}
		if res.V != nil {
			sig := res.V.Sig()
			// A violation is reported only if the same script reproduces it at least once
			// more in a fresh run (DESIGN 2.8): residual nondeterminism (Go's select among
			// ready cases) may make a run unrepeatable, and an alarm nobody can replay is
			// not reported as a violation; it is counted and logged instead.
			confirmed := false
			for try := 0; try < 3 && !confirmed; try++ {
				if r2 := e.Run(t, s); r2.V != nil && r2.V.Sig() == sig {
					confirmed = true
				}
			}
			if !confirmed {
				emit(outLine{Kind: "unreproduced", I: i, Seed: rseed, Engine: e.Name(), Sig: sig, Msg: res.V.Msg, Script: s})
				continue
			}
			nviol++
			budget := shrinkBudget
			if strings.Contains(","+os.Getenv("VERIF_KNOWN")+",", ","+sig+",") {
				budget = 0 // a listed known finding: report it, do not spend time minimising it again
				nviol--
			}
			min, mres, tries := shrink(t, e, s, sig, budget)
			if mres == nil || mres.V == nil {
				min, mres = s, res
			}
			// replay determinism: run the minimised script again, compare trace hash
			again := e.Run(t, min)
			det := again.V != nil && again.V.Sig() == sig && again.TraceHash == mres.TraceHash
			rf := &ReplayFile{Property: prop, Engine: e.Name(), Seed: seed, RunIndex: i, Signature: sig, Violation: mres.V,
				TraceHash: mres.TraceHash, Original: len(s.Ops), Minimised: len(min.Ops), Script: min}
			path := filepath.Join(replayDir, fmt.Sprintf("%s-%s-seed%d-run%d.json", prop, e.Name(), seed, i))
			b, _ := json.MarshalIndent(rf, "", " ")
			os.MkdirAll(replayDir, 0755)
			os.WriteFile(path, b, 0644)
			emit(outLine{Kind: "violation", I: i, Seed: rseed, Engine: e.Name(), Sig: sig, Msg: mres.V.Msg, Replay: path,
				Script: min, ReplayDet: det, Next: int64(tries)})
		}
	}
	emit(outLine{Kind: "done", Next: i, I: n})
}

func replay(t *testing.T) {
	b, err := os.ReadFile(os.Getenv("VERIF_REPLAY"))
	if err != nil {
		t.Fatal(err)
	}
	var rf ReplayFile
	if err := json.Unmarshal(b, &rf); err != nil {
		t.Fatal(err)
	}
	e := engines[rf.Engine]
	if e == nil {
		t.Fatalf("unknown engine %q", rf.Engine)
	}
	out, _ := os.OpenFile(os.Getenv("VERIF_OUT"), os.O_CREATE|os.O_WRONLY|os.O_APPEND, 0644)
	defer out.Close()
	var res *Result
	for attempt := 0; attempt < 5; attempt++ {
		res = e.Run(t, rf.Script)
		if res.V != nil && res.V.Sig() == rf.Signature {
			break
		}
	}
	l := outLine{Kind: "run", Res: res}
	if res.V != nil {
		// (a violation with another signature than the recorded one is reported as what it is now:
		// classifiers added later may have given a recorded alarm its known-finding suffix)
		l.Kind = "violation"
		l.Sig = res.V.Sig()
		l.Msg = res.V.Msg
		l.Replay = os.Getenv("VERIF_REPLAY")
		l.ReplayDet = res.TraceHash == rf.TraceHash
		l.Script = rf.Script
	}
	jb, _ := json.Marshal(l)
	out.Write(append(jb, '\n'))
}
