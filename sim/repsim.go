package sim

import (
	"bytes"
	"encoding/binary"
	"encoding/json"
	"fmt"
	"net/http"
	"net/http/httptest"
	"os"
	"path/filepath"
	"sort"
	"strings"
	"sync"
	"sync/atomic"
	"testing"
	"testing/synctest"
	"time"

	"github.com/openebs/jiva/replica"
	rrest "github.com/openebs/jiva/replica/rest"
	jsync "github.com/openebs/jiva/sync"
	"github.com/openebs/jiva/types"
	"github.com/openebs/sparse-tools/sparse"
	"verif/simrt"
)

// repsim: one real replica (replica.Server) on real ext4 files inside a
// bubble, driven by a script, compared with a byte-array reference model after
// every step. Schedule dimension: the background hole puncher.
//
// Serves C01 C06 C10 C11 C12 C16 C17.

type repsim struct{}

func (repsim) Name() string { return "repsim" }

func init() {
	register(repsim{})
	for _, p := range []string{"C01", "C06", "C10", "C11", "C12", "C16", "C17"} {
		propEngines[p] = append(propEngines[p], "repsim")
	}
}

const sect = 512

// ---------------------------------------------------------------- model

type mSnap struct {
	name    string // disk name volume-snap-<x>.img
	parent  string
	user    bool
	removed bool
	tainted bool // content legitimately changed by the history (merge target): not judged
	image   []byte
	rev     int64
}

type repModel struct {
	size       int64
	live       []byte
	snaps      map[string]*mSnap // every snapshot file that exists on disk (chain members and orphans)
	headParent string            // latest snapshot (parent of head); "" if none
	open       bool
	mode       string // INIT RW WO (valid while open)
	rebuilding bool
	dirty      bool
	revision   int64
	checkpoint string
	taken      map[string]bool // snapshot names whose files exist
}

// retained: user-created and not deleted by the user - the snapshots C06 speaks about.
func (s *mSnap) retained() bool { return s.user && !s.removed }

// chain returns snapshot names from latest to base.
func (m *repModel) chain() []string {
	var c []string
	for cur := m.headParent; cur != ""; cur = m.snaps[cur].parent {
		c = append(c, cur)
	}
	return c
}

func snapDisk(id int64) string { return fmt.Sprintf("volume-snap-s%d.img", id) }

// stamp fills one write's payload: every 8 bytes carry (op#+1, absolute sector).
func stampData(opIdx int, offSect, nSect int64) []byte {
	b := make([]byte, nSect*sect)
	for s := int64(0); s < nSect; s++ {
		v := uint64(opIdx+1)<<32 | uint64(offSect+s)&0xffffffff
		for i := 0; i < sect; i += 8 {
			binary.LittleEndian.PutUint64(b[s*sect+int64(i):], v)
		}
	}
	return b
}

func describeDiff(got, want []byte) string {
	n := len(got)
	if len(want) < n {
		n = len(want)
	}
	for i := 0; i < n; i++ {
		if got[i] != want[i] {
			j := i
			cnt := 0
			for ; j < n; j++ {
				if got[j] != want[j] {
					cnt++
				}
			}
			return fmt.Sprintf("first diff at byte %d (block %d, sector %d): got %x want %x; %d bytes differ",
				i, i/blk, i/sect, got[i:min(i+8, n)], want[i:min(i+8, n)], cnt)
		}
	}
	if len(got) != len(want) {
		return fmt.Sprintf("length %d vs %d", len(got), len(want))
	}
	return "equal"
}

// ---------------------------------------------------------------- generator

func (repsim) Generate(rng *Rand, prop, tier string) *Script {
	s := &Script{Engine: "repsim", Prop: prop, Cfg: map[string]int64{}}
	nb := int64(rng.Range(4, 24))
	if rng.Bool(20) {
		nb = int64(rng.Range(24, 64))
	}
	s.Cfg["blocks"] = nb
	s.Cfg["punch"] = int64(rng.Intn(4)) // 0: off, else on
	s.Cfg["lag"] = int64(rng.Intn(2))
	s.Cfg["preload"] = int64(rng.Intn(2))
	if rng.Bool(15) {
		s.Cfg["maxchain"] = int64(rng.Range(4, 8))
	}
	if prop == "C06" || prop == "C11" {
		s.Cfg["punch"] = 1
	}
	nops := rng.Range(5, 40)
	if tier == "thorough" && rng.Bool(30) {
		nops = rng.Range(40, 80)
	}
	// swarm: per-run weights
	w := map[string]int{
		"w": 30, "r": 10, "snap": 10, "rm": 4, "mark": 2, "clean": 2, "ckpt": 2, "revert": 2,
		"reopen": 3, "reload": 2, "resize": 1, "punch": 4, "mode": 1, "rebuilding": 1, "setrev": 1,
		"cw": 1, "close": 1, "rest": 1, "bad": 2, "sync": 1, "wbig": 6,
		"copen": 1,          // concurrent attach attempts on a closed replica
		"wf":    2, "rf": 1, // one data-file call of the operation fails (EIO / ENOSPC / short write)
	}
	if prop == "C01" || prop == "C10" {
		w["wf"], w["rf"] = 5, 2
	}
	switch prop {
	case "C06":
		w["snap"], w["wbig"], w["punch"], w["reopen"], w["rm"] = 16, 14, 8, 5, 5
		w["clean"], w["mark"], w["ckpt"] = 6, 5, 5 // deletion of OTHER snapshots by the background cleaner
	case "C10":
		w["cw"], w["mode"], w["setrev"], w["reopen"] = 6, 5, 3, 6
	case "C11":
		w["rm"], w["clean"], w["mark"], w["ckpt"], w["snap"] = 10, 10, 8, 5, 16
	case "C12":
		w["reuse"] = 3
		w["bad"], w["snap"], w["rm"], w["revert"], w["resize"], w["reopen"], w["mark"], w["ckpt"] = 8, 12, 6, 5, 3, 5, 4, 3
	case "C16":
		w["resize"], w["reopen"], w["snap"] = 8, 5, 10
	case "C17":
		w["close"], w["mode"], w["rebuilding"], w["rest"], w["bad"], w["setrev"], w["copen"] = 8, 8, 5, 10, 5, 4, 4
	}
	// drop a random subset of op kinds (swarm testing)
	for _, k := range []string{"rm", "mark", "clean", "revert", "reload", "resize", "mode", "rebuilding", "setrev", "cw", "close", "rest", "bad", "sync"} {
		if rng.Bool(30) {
			switch {
			case prop == "C11" && (k == "rm" || k == "clean" || k == "mark"):
			case prop == "C06" && (k == "clean" || k == "mark"):
			case prop == "C16" && k == "resize":
			case prop == "C17" && (k == "close" || k == "rest" || k == "mode"):
			case prop == "C10" && (k == "cw" || k == "mode"):
			case prop == "C12" && k == "bad":
			default:
				w[k] = 0
			}
		}
	}
	var kinds []string
	for k := range w {
		kinds = append(kinds, k)
	}
	sort.Strings(kinds)
	total := 0
	for _, k := range kinds {
		total += w[k]
	}
	snapID := int64(0)
	for i := 0; i < nops; i++ {
		x := rng.Intn(total)
		k := ""
		for _, kk := range kinds {
			if x < w[kk] {
				k = kk
				break
			}
			x -= w[kk]
		}
		op := Op{K: k}
		secs := nb * (blk / sect)
		if k == "reuse" {
			wr := func() {
				b := int64(rng.Intn(int(nb)))
				s.Ops = append(s.Ops, Op{K: "w", A: b * 8, B: 8})
			}
			a, b2, c := snapID+1, snapID+2, snapID+3
			snapID += 4
			wr()
			s.Ops = append(s.Ops, Op{K: "snap", A: a, F: rng.Bool(45)})
			wr()
			s.Ops = append(s.Ops, Op{K: "snap", A: b2, F: rng.Bool(45)})
			wr()
			s.Ops = append(s.Ops, Op{K: "snap", A: c, F: rng.Bool(45)})
			s.Ops = append(s.Ops, Op{K: "rm", A: 1}) // the middle one of the three
			wr()
			s.Ops = append(s.Ops, Op{K: "snap", A: b2, F: rng.Bool(45)}) // its name again
			wr()
			s.Ops = append(s.Ops, Op{K: "snap", A: snapID, F: rng.Bool(45)})
			s.Ops = append(s.Ops, Op{K: "rm", A: 1})
			continue
		}
		switch k {
		case "w", "r", "wf", "rf":
			op.C = int64(rng.Intn(3)) // wf: 0 EIO, 1 ENOSPC, 2 short write
			op.D = int64(rng.Intn(3)) // index of the failing data-file call within the operation
			// bias: block-aligned, straddling, tiny, end-of-volume
			switch rng.Intn(5) {
			case 0: // aligned single/multi block
				b := int64(rng.Intn(int(nb)))
				n := int64(rng.Range(1, 3))
				if b+n > nb {
					n = nb - b
				}
				op.A, op.B = b*8, n*8
			case 1: // straddle a block boundary
				b := int64(rng.Range(1, int(nb)-1))
				op.A = b*8 - int64(rng.Range(1, 7))
				op.B = int64(rng.Range(2, 16))
			case 2: // tiny inside a block
				op.A = int64(rng.Intn(int(secs)))
				op.B = int64(rng.Range(1, 3))
			case 3: // end of volume
				op.B = int64(rng.Range(1, 20))
				op.A = secs - op.B
			default:
				op.A = int64(rng.Intn(int(secs)))
				op.B = int64(rng.Range(1, 40))
			}
			if op.A < 0 {
				op.A = 0
			}
			if op.A+op.B > secs {
				op.B = secs - op.A
			}
			if op.B <= 0 {
				op.A, op.B = 0, 1
			}
		case "wbig": // multi-block aligned write spanning blocks of different owners
			op.K = "w"
			b := int64(rng.Intn(int(nb)))
			n := int64(rng.Range(2, 6))
			if b+n > nb {
				b = nb - n
				if b < 0 {
					b, n = 0, nb
				}
			}
			op.A, op.B = b*8, n*8
		case "snap":
			snapID++
			op.A = snapID
			op.F = rng.Bool(45)
			if (rng.Bool(6) || (prop == "C12" && rng.Bool(14))) && snapID > 1 { // duplicate / previously used name (stale children bookkeeping after reuse)
				op.A = int64(rng.Range(1, int(snapID)-1))
				snapID--
			}
		case "rm", "mark", "ckpt", "revert":
			op.A = int64(rng.Intn(12)) // selector into the chain (mod len), 0 = latest
		case "reopen":
			op.F = rng.Bool(50)        // preload
			op.B = int64(rng.Intn(10)) // 0..7 RW, 8 WO, 9 INIT
		case "resize":
			switch rng.Intn(4) {
			case 0:
				op.A = -int64(rng.Range(1, 3)) // shrink by
			case 1:
				op.A = 0
			default:
				op.A = int64(rng.Range(1, 8)) // grow by blocks
			}
		case "punch":
			op.A = int64(rng.Range(1, 6))
		case "mode":
			op.A = int64(rng.Intn(2))
		case "rebuilding":
			op.F = rng.Bool(50)
		case "setrev":
			op.A = int64(rng.Range(1, 1000))
		case "cw":
			op.A = int64(rng.Range(2, 6))
		case "copen":
			op.A = int64(rng.Range(2, 4))
			op.F = rng.Bool(70) // the first opener pauses inside preload
		case "rest":
			op.A = int64(rng.Intn(64))
		case "bad":
			op.A = int64(rng.Intn(8))
		}
		s.Ops = append(s.Ops, op)
	}
	return s
}

// ---------------------------------------------------------------- executor

// diskArm: the (skip+1)-th data-file call from now fails; reads always with EIO.
type diskArm struct {
	skip  int
	kind  simrt.DiskVerdict
	fired bool
	what  string
}

func (rr *repRun) armDisk(skip int, kind simrt.DiskVerdict) *diskArm {
	a := &diskArm{skip: skip, kind: kind}
	rr.diskMu.Lock()
	rr.diskArm = a
	rr.diskMu.Unlock()
	return a
}

func (rr *repRun) disarmDisk() {
	rr.diskMu.Lock()
	rr.diskArm = nil
	rr.diskMu.Unlock()
}

func (rr *repRun) diskFn(c simrt.DiskCall) simrt.DiskVerdict {
	rr.diskMu.Lock()
	defer rr.diskMu.Unlock()
	a := rr.diskArm
	if a == nil || a.fired {
		return simrt.DiskOK
	}
	if a.skip > 0 {
		a.skip--
		return simrt.DiskOK
	}
	a.fired = true
	a.what = fmt.Sprintf("%s write=%v off=%d len=%d", filepath.Base(c.Path), c.Write, c.Off, c.Len)
	if !c.Write {
		return simrt.DiskEIO
	}
	return a.kind
}

type repRun struct {
	t         *testing.T
	s         *Script
	res       *Result
	w         *simrt.World
	dir       string
	srv       *replica.Server
	m         *repModel
	gate      chan struct{}
	lag       bool
	shape     []string
	step      int
	router    http.Handler
	victim    bool   // crashsim victim mode: run the pre-history, then victimOp
	victimOp  func() // never returns
	exited    bool   // the replica process called exit
	punchEver bool   // reclamation has been enabled at some point of this run
	openPause int32  // copen: number of openers that still pause at the preload fault point
	diskMu    sync.Mutex
	diskArm   *diskArm // one-shot data-file fault (ops wf / rf)
	// bookkeeping for non-triviality
	mutations, compares int
}

func (repsim) Run(t *testing.T, s *Script) *Result {
	res := &Result{Stats: map[string]int64{}}
	dir := newRunDir()
	defer os.RemoveAll(dir)
	infra := inBubble(t, func() {
		rr := &repRun{t: t, s: s, res: res, dir: filepath.Join(dir, "vol")}
		rr.run()
	})
	if infra != "" && res.Infra == "" {
		res.Infra = infra
	}
	return res
}

func (rr *repRun) viol(prop, clause, format string, a ...interface{}) {
	if rr.stopped() {
		return // first finding wins; nothing is judged after a process exit or a harness problem
	}
	v := &Violation{Prop: prop, Clause: clause, Msg: fmt.Sprintf(format, a...), Step: rr.step}
	if prop == rr.s.Prop {
		rr.res.V = v
	} else {
		rr.res.Other = v.Sig() + ": " + v.Msg
	}
}

func (rr *repRun) stopped() bool {
	return rr.res.V != nil || rr.res.Other != "" || rr.res.Infra != "" || rr.exited
}

// do runs f on its own goroutine and pumps the event loop until it returns.
func (rr *repRun) do(name string, f func()) bool {
	done := false
	simrt.GoNamed(nil, fmt.Sprintf("op%d-%s", rr.step, name), func() {
		f()
		done = true
		rr.w.Kick()
	})
	ok := rr.w.Pump(func() bool { return done || len(rr.w.Fatals) > 0 }, rr.w.Now()+10*time.Minute, rr.onQuiescent)
	if !done && len(rr.w.Fatals) > 0 {
		// The replica process called exit (only reachable cause here: the lagging
		// puncher hit a hole whose file was closed by reload -> EBADF x5 -> Fatalf).
		// Process exit ends the run; it is no violation of this engine's properties.
		rr.exited = true
		rr.res.stat("replica_process_exit", 1)
		return false
	}
	if !ok {
		rr.res.Infra = fmt.Sprintf("step %d (%s) did not finish within 10 simulated minutes; fatals=%v panics=%v", rr.step, name, rr.w.Fatals, rr.w.Panics)
	}
	return ok
}

func (rr *repRun) onQuiescent() {
	// a foreground operation waiting in holeDrainer needs the puncher to run
	if rr.lag && types.DrainOps == types.DrainStart {
		rr.release(1 << 20)
	}
}

func (rr *repRun) release(n int) {
	for i := 0; i < n; i++ {
		select {
		case rr.gate <- struct{}{}:
			rr.res.stat("puncher_released", 1)
			rr.w.Wait()
		default:
			return
		}
	}
}

func (rr *repRun) run() {
	s := rr.s
	w := simrt.NewWorld(s.Seed, synctest.Wait)
	w.StrictLocks = os.Getenv("VERIF_LOOSE_LOCKS") == ""
	defer w.Close()
	rr.w = w
	w.TraceOn = os.Getenv("VERIF_TRACE") != ""
	rr.gate = make(chan struct{})
	rr.lag = s.Cfg["lag"] != 0
	replica.HoleCreatorChan = make(chan replica.Hole, 1<<16)
	types.DrainOps = 0
	types.ShouldPunchHoles = s.Cfg["punch"] != 0
	rr.punchEver = types.ShouldPunchHoles
	types.MaxChainLength = int(s.Cfg["maxchain"])
	w.HookFn = func(g *simrt.G, name string, args ...interface{}) {
		if name == "AddPunchHoleTimeout" && rr.lag {
			<-rr.gate
		}
		if name == "AddPreloadTimeout" && atomic.AddInt32(&rr.openPause, -1) >= 0 {
			simrt.Sleep(time.Second)
		}
	}
	w.DiskFn = rr.diskFn
	simrt.GoNamed(nil, "puncher", replica.CreateHoles)

	size := s.Cfg["blocks"] * blk
	rr.m = &repModel{size: size, live: make([]byte, size), snaps: map[string]*mSnap{}, taken: map[string]bool{}, revision: 1}
	rr.srv = replica.NewServer("127.0.0.1:9502", rr.dir, sect, "")
	var err error
	rr.do("create", func() {
		if err = os.MkdirAll(rr.dir, 0700); err != nil {
			return
		}
		if err = rr.srv.Create(size); err != nil {
			return
		}
		rr.srv.SetPreload(s.Cfg["preload"] != 0)
		if err = rr.srv.Open(); err != nil {
			return
		}
		err = rr.srv.SetReplicaMode("RW")
	})
	if err != nil {
		rr.res.Infra = "create/open failed: " + err.Error()
		return
	}
	rr.m.open, rr.m.mode = true, "RW"

	for i, op := range s.Ops {
		if rr.stopped() {
			break
		}
		rr.step = i
		if rr.victim && op.K == "rm" {
			// pre-history removals pick a removable middle snapshot
			if c := rr.m.chain(); len(c) >= 3 {
				rr.removeSnapshot(c[1+int(op.A)%(len(c)-2)], "rm")
			}
			continue
		}
		rr.exec(i, op)
		if os.Getenv("VERIF_DEBUG") != "" {
			rr.w.Wait()
			rr.debugDump(op)
		}
		if rr.stopped() {
			break
		}
		if !rr.victim {
			rr.afterStep(op)
		}
	}
	if rr.victim {
		rr.victimOp()
		return
	}
	if !rr.stopped() {
		rr.step = len(s.Ops)
		rr.finalChecks()
	}
	// let the puncher finish and close (ignore errors)
	rr.lag = false
	rr.release(1 << 20)
	if rr.srv.Replica() != nil && rr.res.Infra == "" && !rr.exited {
		rr.do("final-close", func() { rr.srv.Close() })
	}
	rr.res.SimNanos = int64(w.Now())
	rr.res.Steps = w.Steps
	for k, v := range w.Probes() {
		rr.res.Stats[k] += int64(v)
	}
	rr.res.Shape = hashStrings(rr.shape)
	rr.res.TraceHash = hashTrace(w.Trace)
	rr.res.Nontrivial = rr.mutations > 0 && rr.compares > 0
	if len(w.Panics) > 0 && rr.res.V == nil {
		rr.res.Infra = "panic in run: " + w.Panics[0]
	}
	if len(w.Fatals) > 0 && rr.res.V == nil && rr.res.Infra == "" && !rr.exited {
		rr.res.Infra = "fatal in run: " + w.Fatals[0]
	}
}

func (rr *repRun) note(kind, outcome string) {
	rr.shape = append(rr.shape, kind+":"+outcome)
	rr.res.stat("op_"+kind+"_"+outcome, 1)
}

func okstr(err error) string {
	if err == nil {
		return "ok"
	}
	return "err"
}

// sel picks a chain member by selector (0 = latest). Returns "" if chain empty.
func (rr *repRun) sel(a int64) string {
	c := rr.m.chain()
	if len(c) == 0 {
		return ""
	}
	return c[int(a)%len(c)]
}

// snapshotState captures everything a refused operation must leave untouched.
type repState struct {
	chain  []string
	digest string
	live   []byte
	rev    int64
	mode   string
}

func (rr *repRun) capture() *repState {
	st := &repState{}
	if rr.stopped() {
		return st
	}
	if r := rr.srv.Replica(); r != nil {
		// never touch a simulated lock on the driver goroutine
		rr.do("capture", func() {
			st.chain, _ = r.Chain()
			st.rev = r.GetRevisionCounter()
			st.mode = r.GetReplicaMode()
			st.live = make([]byte, rr.m.size)
			rr.srv.ReadAt(st.live, 0)
		})
	}
	// quiesce the puncher first so the digest is stable
	st.digest = rr.chainDigest()
	return st
}

func (rr *repRun) mustBeNoop(prop, what string, before *repState) {
	if rr.stopped() {
		return
	}
	after := rr.capture()
	if rr.stopped() {
		return
	}
	if strings.Join(before.chain, ",") != strings.Join(after.chain, ",") {
		rr.viol(prop, "refused-op-changed-chain", "%s was refused/failed but chain changed: %v -> %v", what, before.chain, after.chain)
		return
	}
	if !bytes.Equal(before.live, after.live) {
		rr.viol(prop, "refused-op-changed-data", "%s was refused/failed but volume data changed: %s", what, describeDiff(after.live, before.live))
		return
	}
	if before.rev != after.rev || before.mode != after.mode {
		rr.viol(prop, "refused-op-changed-state", "%s was refused/failed but rev/mode changed: %d/%s -> %d/%s", what, before.rev, before.mode, after.rev, after.mode)
		return
	}
	if before.digest != after.digest {
		rr.viol(prop, "refused-op-changed-files", "%s was refused/failed but the directory content changed", what)
	}
}

// drainPuncher lets all queued holes be punched (so file-level captures are stable).
func (rr *repRun) drainPuncher() {
	if rr.lag {
		rr.release(1 << 20)
	}
	rr.w.Wait()
}

func (rr *repRun) exec(i int, op Op) {
	m := rr.m
	srv := rr.srv
	switch op.K {
	case "w":
		off, n := op.A*sect, op.B*sect
		if off+n > m.size || n <= 0 {
			rr.note("w", "skip")
			return
		}
		data := stampData(i, op.A, op.B)
		var c int
		var err error
		var before *repState
		expectApply := m.open && (m.mode == "RW" || m.mode == "WO")
		if !expectApply {
			rr.drainPuncher()
			before = rr.capture()
		}
		if !rr.do("w", func() { c, err = srv.WriteAt(data, off) }) {
			return
		}
		rr.note("w", okstr(err))
		if expectApply {
			if err != nil {
				rr.viol(rr.s.Prop, "unexpected-write-error", "write off=%d len=%d in mode %s failed: %v", off, n, m.mode, err)
				return
			}
			_ = c // the replica-level byte count is not pinned by any property (sub-block writes report the 4 KiB RMW size; the RPC layer ignores it)
			copy(m.live[off:], data)
			m.dirty = true
			if m.mode == "RW" {
				m.revision++
			}
			rr.mutations++
		} else {
			if err == nil {
				rr.viol("C17", "write-accepted-in-wrong-state", "write succeeded while open=%v mode=%s", m.open, m.mode)
				return
			}
			rr.drainPuncher()
			after := rr.capture()
			if m.open && !bytes.Equal(before.live, after.live) {
				rr.viol("C17", "write-applied-in-wrong-state", "write in mode %s returned an error (%v) but changed the data: %s", m.mode, err, describeDiff(after.live, before.live))
				return
			}
			if before.digest != after.digest {
				rr.viol("C17", "write-applied-in-wrong-state-files", "write while open=%v mode=%s returned %v but changed files", m.open, m.mode, err)
				return
			}
		}
	case "wf":
		// a write during which one data-file call fails (disk error, full disk, torn write)
		off, n := op.A*sect, op.B*sect
		if off+n > m.size || n <= 0 || !m.open || (m.mode != "RW" && m.mode != "WO") {
			rr.note("wf", "skip")
			return
		}
		data := stampData(i, op.A, op.B)
		kind := []simrt.DiskVerdict{simrt.DiskEIO, simrt.DiskENOSPC, simrt.DiskShort}[int(op.C)%3]
		arm := rr.armDisk(int(op.D), kind)
		var err error
		ok := rr.do("wf", func() { _, err = srv.WriteAt(data, off) })
		rr.disarmDisk()
		if !ok {
			return
		}
		if !arm.fired {
			rr.note("wf", "nofault-"+okstr(err))
			if err != nil {
				rr.viol(rr.s.Prop, "unexpected-write-error", "write off=%d len=%d in mode %s failed: %v", off, n, m.mode, err)
				return
			}
		} else {
			rr.res.stat(fmt.Sprintf("fault_disk_%d_fired", int(kind)), 1)
			rr.note("wf", okstr(err))
		}
		if err == nil {
			// reported success: it counts as an applied write (a success over a failed
			// disk call shows up as a read mismatch right below)
			copy(m.live[off:], data)
			m.dirty = true
			if m.mode == "RW" {
				m.revision++
			}
			rr.mutations++
			rr.compareLive("C01", "read-mismatch")
			return
		}
		rr.res.stat("failed_writes_judged", 1)
		// reported failure: nothing outside the range may change, every byte inside is old or new,
		// the revision counter stays (checked by afterStep: the model did not count it)
		got := make([]byte, m.size)
		var rerr error
		if !rr.do("fullread", func() { _, rerr = srv.ReadAt(got, 0) }) {
			return
		}
		if rerr != nil {
			rr.viol("C01", "full-read-failed", "full read after a failed write (%s) failed: %v", arm.what, rerr)
			return
		}
		rr.compares++
		for j := int64(0); j < m.size; j++ {
			if got[j] == m.live[j] {
				continue
			}
			if j >= off && j < off+n && got[j] == data[j-off] {
				continue
			}
			rr.viol("C01", "failed-write-damaged-data", "write off=%d len=%d failed (%s: %v) and byte %d reads %#x, neither the old %#x nor (inside the range) the new value", off, n, arm.what, err, j, got[j], m.live[j])
			return
		}
		var rev int64
		rr.do("getrev", func() { rev = srv.Replica().GetRevisionCounter() })
		if rev != m.revision {
			rr.viol("C10", "revision-counter-mismatch", "a write that failed (%s: %v) changed the revision counter %d -> %d", arm.what, err, m.revision, rev)
			return
		}
		// the initiator retries; the retry must succeed and settles the range
		if !rr.do("w-retry", func() { _, err = srv.WriteAt(data, off) }) {
			return
		}
		if err != nil {
			rr.viol(rr.s.Prop, "unexpected-write-error", "retry of a failed write off=%d len=%d failed: %v", off, n, err)
			return
		}
		copy(m.live[off:], data)
		m.dirty = true
		if m.mode == "RW" {
			m.revision++
		}
		rr.mutations++
		rr.compareLive("C01", "read-mismatch")
	case "rf":
		off, n := op.A*sect, op.B*sect
		if off+n > m.size || n <= 0 || !m.open {
			rr.note("rf", "skip")
			return
		}
		buf := make([]byte, n)
		arm := rr.armDisk(int(op.D), simrt.DiskEIO)
		var err error
		ok := rr.do("rf", func() { _, err = srv.ReadAt(buf, off) })
		rr.disarmDisk()
		if !ok {
			return
		}
		if arm.fired {
			rr.res.stat("fault_disk_read_fired", 1)
		}
		rr.note("rf", fmt.Sprintf("%v-%s", arm.fired, okstr(err)))
		if err != nil {
			if !arm.fired {
				rr.viol("C01", "unexpected-read-error", "read off=%d len=%d failed: %v", off, n, err)
			}
			return
		}
		// success (fault not reached, or absorbed): the data must be right
		rr.compares++
		if !bytes.Equal(buf, m.live[off:off+n]) {
			rr.viol("C01", "read-mismatch", "read off=%d len=%d (data-file fault fired=%v %s): %s", off, n, arm.fired, arm.what, describeDiff(buf, m.live[off:off+n]))
		}
	case "r":
		off, n := op.A*sect, op.B*sect
		if off+n > m.size || n <= 0 {
			rr.note("r", "skip")
			return
		}
		buf := make([]byte, n)
		var err error
		if !rr.do("r", func() { _, err = srv.ReadAt(buf, off) }) {
			return
		}
		rr.note("r", okstr(err))
		if !m.open {
			if err == nil {
				rr.viol("C17", "read-served-while-closed", "read succeeded on a closed replica")
			}
			return
		}
		if err != nil {
			rr.viol("C01", "unexpected-read-error", "read off=%d len=%d failed: %v", off, n, err)
			return
		}
		rr.compares++
		if !bytes.Equal(buf, m.live[off:off+n]) {
			rr.viol("C01", "read-mismatch", "read off=%d len=%d: %s", off, n, describeDiff(buf, m.live[off:off+n]))
		}
	case "sync":
		var err error
		if !rr.do("sync", func() { _, err = srv.Sync() }) {
			return
		}
		rr.note("sync", okstr(err))
		if !m.open && err == nil {
			rr.viol("C17", "sync-served-while-closed", "sync succeeded on a closed replica")
		}
		if m.open {
			m.dirty = true
		}
	case "snap":
		name := fmt.Sprintf("s%d", op.A)
		disk := snapDisk(op.A)
		var err error
		dup := m.taken[disk]
		maxc := int(rr.s.Cfg["maxchain"])
		mayFail := maxc != 0 && len(m.chain())+4 >= maxc // chain-length limit: follow the implementation near the limit
		tooLong := mayFail
		expectFail := !m.open || dup || mayFail
		var before *repState
		if expectFail {
			rr.drainPuncher()
			before = rr.capture()
		}
		if !rr.do("snap", func() { err = srv.Snapshot(name, op.F, "2020-01-01T00:00:00Z") }) {
			return
		}
		rr.note("snap", okstr(err))
		if err != nil {
			if !expectFail {
				rr.viol(rr.s.Prop, "unexpected-snapshot-error", "snapshot %s failed: %v", name, err)
				return
			}
			rr.drainPuncher()
			rr.mustBeNoop("C12", fmt.Sprintf("snapshot %s (dup=%v tooLong=%v open=%v)", name, dup, tooLong, m.open), before)
			if dup && m.open {
				inChain := false
				for _, n := range m.chain() {
					inChain = inChain || n == disk
				}
				if !inChain {
					// a failed attempt cleans up same-named leftovers outside the chain
					// (orphans of an earlier revert): the name is free afterwards
					delete(m.taken, disk)
					delete(m.snaps, disk)
				}
			}
			return
		}
		if !m.open {
			rr.viol("C17", "snapshot-served-while-closed", "snapshot succeeded on a closed replica")
			return
		}
		if dup {
			rr.viol("C12", "duplicate-snapshot-accepted", "snapshot with existing name %s succeeded", name)
			return
		}
		m.snaps[disk] = &mSnap{name: disk, parent: m.headParent, user: op.F, image: append([]byte(nil), m.live...), rev: m.revision}
		m.headParent = disk
		m.taken[disk] = true
		m.dirty = true
		rr.mutations++
	case "mark":
		target := rr.sel(op.A)
		if target == "" {
			rr.note("mark", "skip")
			return
		}
		rr.prepareRemove(target, false)
	case "rm":
		target := rr.sel(op.A)
		if target == "" {
			rr.note("rm", "skip")
			return
		}
		rr.removeSnapshot(target, "rm")
	case "clean":
		rr.cleaner()
	case "ckpt":
		target := rr.sel(op.A)
		var err error
		if !rr.do("ckpt", func() { err = srv.SetCheckpoint(target) }) {
			return
		}
		rr.note("ckpt", okstr(err))
		if err == nil {
			if !m.open {
				rr.viol("C17", "setcheckpoint-served-while-closed", "setcheckpoint succeeded on a closed replica")
				return
			}
			m.checkpoint = target
		}
	case "revert":
		target := rr.sel(op.A)
		if target == "" {
			rr.note("revert", "skip")
			return
		}
		if m.open && rr.punchEver && !m.snaps[target].retained() {
			// Reverting to an automatic snapshot while reclamation is (or was) on is
			// explicitly unpromised (C06); so is reverting to a user-created snapshot that the
			// user has deleted (marked removed, waiting for the cleaner): it is no longer
			// "retained", and a thinned automatic snapshot may have been folded into it.
			// Pick the nearest retained user-created snapshot instead.
			alt := ""
			for _, n := range m.chain() {
				if m.snaps[n].retained() {
					alt = n
					break
				}
			}
			if alt == "" {
				rr.note("revert", "skip-auto")
				return
			}
			target = alt
		}
		var err error
		if !rr.do("revert", func() { err = srv.Revert(target, "2020-01-02T00:00:00Z") }) {
			return
		}
		rr.note("revert", okstr(err))
		if err != nil {
			if m.open {
				rr.viol(rr.s.Prop, "unexpected-revert-error", "revert to %s failed: %v", target, err)
			}
			return
		}
		if !m.open {
			rr.viol("C17", "revert-served-while-closed", "revert succeeded on a closed replica")
			return
		}
		m.headParent = target
		m.live = append([]byte(nil), m.snaps[target].image...)
		if int64(len(m.live)) < m.size {
			m.live = append(m.live, make([]byte, m.size-int64(len(m.live)))...)
		}
		m.dirty = true
		rr.mutations++
		// the image the volume now shows must be the snapshot's (C06, revert clause)
		auto := !m.snaps[target].retained()
		if auto && rr.punchEver {
			// Nothing is promised about reverting to an automatic snapshot while
			// reclamation is (or was) on: holes for blocks shadowed by later writes may
			// already be punched or still be queued. Let the queue drain, then follow
			// the implementation.
			rr.drainPuncher()
		}
		got := make([]byte, m.size)
		var rerr error
		rr.do("revert-read", func() { _, rerr = srv.ReadAt(got, 0) })
		if rerr != nil {
			rr.viol("C06", "read-after-revert-failed", "read after revert to %s failed: %v", target, rerr)
			return
		}
		if auto && rr.punchEver {
			if !bytes.Equal(got, m.live) {
				rr.res.stat("auto_snapshot_thinned_on_revert", 1)
			}
			m.live = got
			m.snaps[target].image = append([]byte(nil), got...)
			m.snaps[target].tainted = true
			return
		}
		if m.snaps[target].tainted {
			m.live = got
			return
		}
		rr.compares++
		if !bytes.Equal(got, m.live) {
			rr.viol("C06", "revert-image-mismatch", "after revert to %s (user=%v) the volume differs from the snapshot image: %s", target, m.snaps[target].user, describeDiff(got, m.live))
		}
	case "reopen":
		rr.reopen(op.F, op.B)
	case "close":
		var err error
		if !rr.do("close", func() { err = srv.Close() }) {
			return
		}
		rr.note("close", okstr(err))
		if err != nil {
			rr.viol(rr.s.Prop, "unexpected-close-error", "close failed: %v", err)
			return
		}
		m.open = false
		m.dirty = false
	case "copen":
		// C17: a replica can be attached only while it is closed, so of several attach
		// attempts arriving together exactly one may succeed
		var err error
		if m.open {
			if !rr.do("close", func() { err = srv.Close() }) {
				return
			}
			if err != nil {
				rr.viol(rr.s.Prop, "unexpected-close-error", "close failed: %v", err)
				return
			}
		}
		m.open, m.dirty = false, false
		k := int(op.A)
		if k < 2 {
			k = 2
		}
		errs := make([]error, k)
		if op.F {
			atomic.StoreInt32(&rr.openPause, 1)
		}
		step := rr.step
		ok := rr.do("copen", func() {
			srv.SetPreload(true)
			ch := make(chan int, k)
			for j := 0; j < k; j++ {
				j := j
				simrt.GoNamed(nil, fmt.Sprintf("op%d-opener%d", step, j), func() {
					errs[j] = srv.Open()
					ch <- j
				})
			}
			for j := 0; j < k; j++ {
				<-ch
			}
			srv.SetPreload(rr.s.Cfg["preload"] != 0)
		})
		atomic.StoreInt32(&rr.openPause, 0)
		if !ok {
			return
		}
		won := 0
		for _, e := range errs {
			if e == nil {
				won++
			}
		}
		rr.note("copen", fmt.Sprint(won))
		rr.res.stat("concurrent_opens", 1)
		if won != 1 {
			rr.viol("C17", "replica-opened-more-than-once", "%d of %d simultaneous open requests on a closed replica succeeded (errors: %v)", won, k, errs)
			return
		}
		if !rr.do("setmode", func() { err = srv.SetReplicaMode("RW") }) {
			return
		}
		if err != nil {
			rr.viol(rr.s.Prop, "unexpected-mode-error", "SetReplicaMode(RW) after open failed: %v", err)
			return
		}
		m.open, m.mode = true, "RW"
		rr.mutations++
		rr.compareLive("C01", "read-after-reopen-mismatch")
	case "reload":
		var err error
		if !rr.do("reload", func() { err = srv.Reload() }) {
			return
		}
		rr.note("reload", okstr(err))
		if m.open && err != nil {
			rr.viol(rr.s.Prop, "unexpected-reload-error", "reload failed: %v", err)
			return
		}
		if !m.open && err == nil {
			rr.viol("C17", "reload-served-while-closed", "reload succeeded on a closed replica")
			return
		}
		if err == nil {
			// Server.Reload switches reclamation on (by design)
			rr.punchEver = true
			rr.res.stat("reload", 1)
		}
	case "resize":
		newSize := m.size + op.A*blk
		if newSize <= 0 {
			newSize = blk
		}
		var err error
		var before *repState
		shrink := newSize < m.size
		if shrink || !m.open {
			rr.drainPuncher()
			before = rr.capture()
		}
		if !rr.do("resize", func() { err = srv.Resize(fmt.Sprintf("%d", newSize)) }) {
			return
		}
		rr.note("resize", okstr(err))
		if shrink {
			if err == nil {
				rr.viol("C16", "shrink-accepted", "resize from %d to %d succeeded", m.size, newSize)
				return
			}
			rr.drainPuncher()
			if m.open {
				rr.mustBeNoop("C16", fmt.Sprintf("shrink %d->%d", m.size, newSize), before)
			}
			return
		}
		if !m.open {
			if err == nil {
				rr.viol("C17", "resize-served-while-closed", "resize succeeded on a closed replica")
			}
			return
		}
		if err != nil {
			rr.viol("C16", "grow-failed", "resize from %d to %d failed: %v", m.size, newSize, err)
			return
		}
		if newSize > m.size {
			grow := make([]byte, newSize-m.size)
			m.live = append(m.live, grow...)
			for _, n := range m.chain() {
				sn := m.snaps[n]
				sn.image = append(sn.image, make([]byte, newSize-int64(len(sn.image)))...)
			}
			m.size = newSize
			rr.mutations++
		}
	case "punch":
		rr.release(int(op.A))
		rr.note("punch", "ok")
	case "mode":
		mode := []string{"RW", "WO"}[op.A%2]
		var err error
		if !rr.do("mode", func() { err = srv.SetReplicaMode(mode) }) {
			return
		}
		rr.note("mode", okstr(err))
		if err == nil {
			if !m.open {
				rr.viol("C17", "setmode-served-while-closed", "setreplicamode succeeded on a closed replica")
				return
			}
			m.mode = mode
		}
	case "rebuilding":
		var err error
		if !rr.do("rebuilding", func() { err = srv.SetRebuilding(op.F) }) {
			return
		}
		rr.note("rebuilding", okstr(err))
		if err == nil {
			if !m.open {
				rr.viol("C17", "setrebuilding-served-while-closed", "setrebuilding succeeded on a closed replica")
				return
			}
			m.rebuilding = op.F
		}
	case "setrev":
		var err error
		if !rr.do("setrev", func() { err = srv.SetRevisionCounter(op.A) }) {
			return
		}
		rr.note("setrev", okstr(err))
		allowed := m.open && m.mode == "RW"
		if err == nil && !allowed {
			rr.viol("C17", "setrevision-accepted-in-wrong-mode", "setrevisioncounter(%d) succeeded while open=%v mode=%s", op.A, m.open, m.mode)
			return
		}
		if err != nil && allowed {
			rr.viol(rr.s.Prop, "unexpected-setrev-error", "setrevisioncounter failed in RW: %v", err)
			return
		}
		if err == nil {
			m.revision = op.A
		}
	case "cw":
		rr.concurrentWrites(i, int(op.A))
	case "rest":
		rr.restProbe(op.A)
	case "bad":
		rr.badRequest(op.A)
	}
}

func (rr *repRun) reopen(preload bool, modeSel int64) {
	m := rr.m
	srv := rr.srv
	var err error
	if m.open {
		if !rr.do("close", func() { err = srv.Close() }) {
			return
		}
		if err != nil {
			rr.viol(rr.s.Prop, "unexpected-close-error", "close failed: %v", err)
			return
		}
	}
	m.open = false
	mode := "RW"
	if modeSel == 8 {
		mode = "WO"
	} else if modeSel == 9 {
		mode = "INIT"
	}
	if !rr.do("open", func() {
		srv.SetPreload(preload)
		if err = srv.Open(); err != nil {
			return
		}
		if mode != "INIT" {
			err = srv.SetReplicaMode(mode)
		}
	}) {
		return
	}
	rr.note("reopen", okstr(err))
	if err != nil {
		rr.viol("C12", "reopen-failed", "close+open failed: %v", err)
		return
	}
	m.open, m.mode, m.dirty = true, mode, false
	rr.res.stat("reopen", 1)
	rr.mutations++
	// C01/C12: immediately after reopen, before anything else, the data must be there
	rr.compareLive("C01", "read-after-reopen-mismatch")
}

// c11or01: what the live volume reads after a snapshot deletion is C11's clause and, being a
// read that does not return the last written data, C01's as well: in C01 runs it is reported there.
func (rr *repRun) c11or01() string {
	if rr.s.Prop == "C01" {
		return "C01"
	}
	return "C11"
}

// c06or11: a retained user-created snapshot whose content changed is C06's clause; in a C11 run in
// which a deletion has already been carried out it is reported as C11 ("deleting a snapshot never
// changes ... the content of any other retained user-created snapshot" - also when the damage the
// deletion did to the replica's bookkeeping only shows at a later write).
func (rr *repRun) c06or11() string {
	if rr.s.Prop == "C11" && rr.res.Stats["snapshot_removed"] > 0 {
		return "C11"
	}
	return "C06"
}

func (rr *repRun) compareLive(prop, clause string) {
	if !rr.m.open || rr.stopped() {
		return
	}
	got := make([]byte, rr.m.size)
	var err error
	if !rr.do("fullread", func() { _, err = rr.srv.ReadAt(got, 0) }) {
		return
	}
	if err != nil {
		rr.viol(prop, "full-read-failed", "full read failed: %v", err)
		return
	}
	rr.compares++
	if !bytes.Equal(got, rr.m.live) {
		rr.viol(prop, clause, "full volume read differs from the model: %s", describeDiff(got, rr.m.live))
	}
}

// prepareRemove issues PrepareRemoveDisk and checks the protection rules.
func (rr *repRun) prepareRemove(target string, quiet bool) ([]replica.PrepareRemoveAction, error) {
	m := rr.m
	var acts []replica.PrepareRemoveAction
	var err error
	if !rr.do("prepare", func() { acts, err = rr.srv.PrepareRemoveDisk(target) }) {
		return nil, fmt.Errorf("hung")
	}
	if !quiet {
		rr.note("mark", okstr(err))
	}
	sn := m.snaps[target]
	protected := target == m.headParent || sn == nil || sn.parent == ""
	allowed := m.open && m.mode == "RW"
	if err == nil && len(acts) > 0 {
		if !allowed {
			rr.viol("C17", "prepare-remove-accepted-in-wrong-mode", "prepareremovedisk(%s) succeeded while open=%v mode=%s", target, m.open, m.mode)
			return acts, err
		}
		if protected {
			rr.viol("C11", "protected-disk-accepted-for-deletion", "prepareremovedisk(%s) accepted (latest=%v base=%v)", target, target == m.headParent, sn != nil && sn.parent == "")
			return acts, err
		}
		sn.removed = true
	}
	return acts, err
}

// removeSnapshot performs the full deletion sequence the controller / cleaner
// use: prepare (mark removed) -> coalesce into parent -> remove.
func (rr *repRun) removeSnapshot(target, kind string) {
	m := rr.m
	sn := m.snaps[target]
	protected := target == m.headParent || sn.parent == ""
	allowed := m.open && m.mode == "RW"
	var before *repState
	if protected || !allowed {
		rr.drainPuncher()
		before = rr.capture()
	}
	acts, err := rr.prepareRemove(target, true)
	if rr.stopped() {
		return
	}
	if protected || !allowed {
		rr.note(kind, "refused")
		if err == nil && len(acts) > 0 {
			return // violation already raised by prepareRemove
		}
		// snapshot removal is refused unless the replica is RW (C17), whatever the target
		if m.open && m.mode != "RW" && target != m.headParent {
			var rerr error
			rr.do("rmraw-wrongmode", func() { rerr = rr.srv.RemoveDiffDisk(target) })
			if rerr == nil && !rr.stopped() {
				rr.viol("C17", "removedisk-accepted-in-wrong-mode", "removedisk(%s) succeeded while the replica mode is %s", target, m.mode)
				return
			}
		}
		// also the raw remove must refuse head/latest
		if allowed && target == m.headParent {
			var rerr error
			rr.do("rmraw", func() { rerr = rr.srv.RemoveDiffDisk(target) })
			if rerr == nil {
				rr.viol("C11", "latest-snapshot-removed", "removedisk(%s) of the latest snapshot succeeded", target)
				return
			}
		}
		rr.drainPuncher()
		if m.open {
			// C12's clause (a refused operation is a no-op); for head / latest / base it is C11's as well
			// ("never accepted for deletion": a refusal that marks the disk removed has half accepted it)
			np := "C12"
			if rr.s.Prop == "C11" && protected {
				np = "C11"
			}
			rr.mustBeNoop(np, "remove of protected disk "+target, before)
		}
		return
	}
	if err != nil {
		rr.note(kind, "err")
		rr.viol(rr.s.Prop, "unexpected-prepare-error", "prepareremovedisk(%s) failed: %v", target, err)
		return
	}
	parent := m.snaps[sn.parent]
	// images before
	for _, a := range acts {
		switch a.Action {
		case replica.OpCoalesce:
			var ferr error
			rr.do("fold", func() {
				ferr = sparse.FoldFile(filepath.Join(rr.dir, a.Source), filepath.Join(rr.dir, a.Target), &foldStub{})
			})
			if ferr != nil {
				rr.viol(rr.s.Prop, "unexpected-fold-error", "fold %s -> %s failed: %v", a.Source, a.Target, ferr)
				return
			}
			// C11: between fold and remove nothing visible may change
			rr.compareLive(rr.c11or01(), "live-changed-by-coalesce")
			rr.checkSnapshots("C11", "snapshot-changed-by-coalesce", target, parent.name)
			if rr.stopped() {
				return
			}
		case replica.OpRemove:
			var rerr error
			rr.do("rmdisk", func() { rerr = rr.srv.RemoveDiffDisk(a.Source) })
			if rerr != nil {
				// No property promises that a deletion is accepted (e.g. after a snapshot
				// name was reused the stale children bookkeeping refuses it with "2
				// children" until the next reopen). It must then be a no-op apart from the
				// coalesce that already happened: the parent now holds the target's image.
				rr.note(kind, "remove-refused")
				rr.res.stat("remove_refused_after_coalesce", 1)
				if parent.user && !parent.removed {
					parent.tainted = true
				}
				parent.image = sn.image
				if sn.tainted || (rr.punchEver && !sn.retained()) {
					parent.tainted = true
				}
				rr.compareLive(rr.c11or01(), "live-changed-by-refused-deletion")
				rr.checkSnapshots("C11", "snapshot-changed-by-refused-deletion", "", "")
				return
			}
		}
	}
	rr.note(kind, "ok")
	rr.res.stat("snapshot_removed", 1)
	rr.mutations++
	// model: parent now holds target's image; children of target re-parented
	if kind == "clean" && parent.user && !parent.removed && !parent.tainted && !sn.tainted {
		// the background cleaner merged into a retained user-created snapshot (only reachable in
		// C06 runs, see cleaner()): "deletion of other snapshots leaves every retained user-created
		// snapshot byte-identical" - judge its content against the image recorded when it was taken
		rr.checkSnapshots(rr.c06or11(), "user-snapshot-changed", "", "")
		if rr.stopped() {
			return
		}
	}
	if parent.user && !parent.removed {
		parent.tainted = true
		rr.res.stat("merge_into_user_snapshot", 1)
	}
	parent.image = sn.image
	parent.rev = sn.rev
	if sn.tainted || (rr.punchEver && !sn.retained()) {
		// (a snapshot that reclamation may have thinned was folded in: the parent's content is
		// then "the thinned image", which no property pins)
		parent.tainted = true
	}
	for _, o := range m.snaps {
		if o.parent == target {
			o.parent = parent.name
		}
	}
	if m.headParent == target {
		m.headParent = parent.name
	}
	delete(m.snaps, target)
	delete(m.taken, target)
	if m.checkpoint == target {
		// the checkpoint named a snapshot that no longer exists; keep the string (replica does)
	}
	rr.compareLive(rr.c11or01(), "live-changed-by-snapshot-deletion")
	rr.checkSnapshots("C11", "snapshot-changed-by-snapshot-deletion", "", "")
}

type foldStub struct{}

func (*foldStub) UpdateFoldFileProgress(progress int, done bool, err error) {}

// cleaner runs one iteration of the background cleaner's selection + deletion.
func (rr *repRun) cleaner() {
	m := rr.m
	if !m.open || m.checkpoint == "" {
		rr.note("clean", "skip")
		return
	}
	var cands []string
	var err error
	rr.do("candidates", func() { cands, err = jsync.GetDeleteCandidateChain(rr.srv.Replica(), m.checkpoint) })
	if err != nil {
		rr.note("clean", "err")
		return
	}
	chain := m.chain() // latest..base
	pos := map[string]int{}
	for i, n := range chain {
		pos[n] = len(chain) - 1 - i // base = 0
	}
	ck, ckInChain := pos[m.checkpoint]
	for _, c := range cands {
		sn := m.snaps[c]
		p, ok := pos[c]
		switch {
		case !ok || sn == nil:
			rr.viol("C11", "cleaner-candidate-not-in-chain", "candidate %s is not a chain member", c)
		case !ckInChain:
			rr.viol("C11", "cleaner-candidate-without-checkpoint", "candidate %s selected although checkpoint %s is not in the chain", c, m.checkpoint)
		case p == 0:
			rr.viol("C11", "cleaner-selected-base", "candidate %s is the base snapshot", c)
		case p >= ck:
			rr.viol("C11", "cleaner-selected-checkpoint-or-newer", "candidate %s (pos %d) is at or above the checkpoint %s (pos %d)", c, p, m.checkpoint, ck)
		case sn.user && !sn.removed:
			rr.viol("C11", "cleaner-selected-user-snapshot", "candidate %s is a user-created snapshot not marked removed", c)
		default:
			par := m.snaps[sn.parent]
			if par != nil && par.user && !par.removed {
				if rr.s.Prop == "C06" {
					// C06 runs let the cleaner go ahead and judge what it does to that snapshot's content
					rr.res.stat("cleaner_merge_into_user_snapshot_observed", 1)
				} else {
					rr.viol("C11", "cleaner-selected-merge-into-user-snapshot", "candidate %s would be merged into user-created snapshot %s", c, par.name)
				}
			}
		}
		if rr.stopped() {
			return
		}
	}
	rr.res.stat("cleaner_candidates", int64(len(cands)))
	if len(cands) == 0 {
		rr.note("clean", "none")
		return
	}
	if m.mode != "RW" {
		rr.note("clean", "notrw")
		return
	}
	rr.removeSnapshot(cands[0], "clean")
}

// checkSnapshots verifies every retained user-created snapshot against the
// image recorded when it was taken, using the independent on-disk reader.
func (rr *repRun) checkSnapshots(prop, clause string, skip1, skip2 string) {
	if rr.stopped() {
		return
	}
	m := rr.m
	rr.w.Wait()
	for _, name := range m.chain() {
		sn := m.snaps[name]
		if !sn.user || sn.removed || sn.tainted || name == skip1 || name == skip2 {
			continue
		}
		chain, _, err := diskChain(rr.dir, name)
		if err != nil {
			rr.viol("C12", "on-disk-chain-broken", "walking from %s: %v", name, err)
			return
		}
		img, err := imageOf(rr.dir, chain, int64(len(sn.image)))
		if err != nil {
			rr.res.Infra = "imageOf: " + err.Error()
			return
		}
		rr.compares++
		rr.res.stat("snapshot_probes", 1)
		if !bytes.Equal(img, sn.image) {
			rr.viol(prop, clause, "user snapshot %s no longer matches the image recorded when it was taken: %s", name, describeDiff(img, sn.image))
			return
		}
	}
}

func (rr *repRun) concurrentWrites(i, k int) {
	m := rr.m
	if !m.open || (m.mode != "RW" && m.mode != "WO") {
		rr.note("cw", "skip")
		return
	}
	nb := int(m.size / blk)
	if k > nb {
		k = nb
	}
	errs := make([]error, k)
	done := 0
	var cwmu sync.Mutex
	first := int(rr.w.Rand(fmt.Sprintf("cw%d", i)) % uint64(nb))
	for j := 0; j < k; j++ {
		j := j
		b := int64((first + j) % nb)
		data := stampData(i*16+j, b*8, 8)
		copy(m.live[b*blk:], data)
		simrt.GoNamed(nil, fmt.Sprintf("cw%d-%d", i, j), func() {
			_, errs[j] = rr.srv.WriteAt(data, b*blk)
			cwmu.Lock()
			done++
			cwmu.Unlock()
			rr.w.Kick()
		})
	}
	if !rr.w.Pump(func() bool { return done == k }, rr.w.Now()+10*time.Minute, rr.onQuiescent) {
		rr.res.Infra = "concurrent writes hung"
		return
	}
	for _, e := range errs {
		if e != nil {
			rr.viol(rr.s.Prop, "unexpected-write-error", "concurrent write failed: %v", e)
			return
		}
	}
	rr.note("cw", "ok")
	m.dirty = true
	if m.mode == "RW" {
		m.revision += int64(k)
	}
	rr.mutations++
	rr.res.stat("concurrent_write_batches", 1)
}

// afterStep evaluates the invariants that must hold after every operation.
func (rr *repRun) afterStep(op Op) {
	m := rr.m
	if rr.stopped() {
		return
	}
	r := rr.srv.Replica()
	if m.open != (r != nil) {
		rr.viol("C17", "open-state-mismatch", "model open=%v but server replica present=%v after %s", m.open, r != nil, op.K)
		return
	}
	if !m.open {
		return
	}
	// C10: revision counter
	// read from the file, not through Replica.GetRevisionCounter(): that accessor re-reads the file and
	// REFRESHES the in-memory copy the next increment starts from, so looking through it after every step
	// repaired a stale copy before it could do harm (C10-f). Every fourth step still goes through the accessor.
	var rev int64
	if rr.step%4 == 1 {
		rr.do("getrev", func() { rev = r.GetRevisionCounter() })
	} else {
		var rerr error
		if rev, rerr = readRevisionFile(rr.dir); rerr != nil {
			rr.viol("C10", "revision-counter-unreadable", "after %s: %v", op.String(), rerr)
			return
		}
	}
	if rev != m.revision {
		rr.viol("C10", "revision-counter-mismatch", "after %s: persisted revision counter %d, expected %d (mode %s)", op.String(), rev, m.revision, m.mode)
		return
	}
	// C12: chain well-formedness (in memory vs model vs disk)
	var chain []string
	var err error
	rr.do("chain", func() { chain, err = r.Chain() })
	if err != nil {
		rr.viol("C12", "chain-walk-failed", "Chain() failed after %s: %v", op.String(), err)
		return
	}
	want := m.chain()
	if len(chain) == 0 || strings.Join(chain[1:], ",") != strings.Join(want, ",") {
		rr.viol("C12", "chain-mismatch", "after %s: chain %v, expected head + %v", op.String(), chain, want)
		return
	}
	seen := map[string]bool{}
	for _, c := range chain {
		if seen[c] {
			rr.viol("C12", "chain-duplicate", "chain %v has a duplicate", chain)
			return
		}
		seen[c] = true
	}
	dchain, metas, derr := diskChain(rr.dir, chain[0])
	if derr != nil {
		rr.viol("C12", "on-disk-chain-broken", "after %s: %v", op.String(), derr)
		return
	}
	if strings.Join(dchain, ",") != strings.Join(chain, ",") {
		rr.viol("C12", "on-disk-chain-differs", "after %s: memory %v disk %v", op.String(), chain, dchain)
		return
	}
	var vm volMeta
	if err := readJSON(filepath.Join(rr.dir, "volume.meta"), &vm); err != nil || vm.Head != chain[0] {
		rr.viol("C12", "volume-meta-head-differs", "after %s: volume.meta head %q (err %v), memory head %q", op.String(), vm.Head, err, chain[0])
		return
	}
	for _, n := range want {
		sn := m.snaps[n]
		dm := metas[n]
		if dm.UserCreated != sn.user || dm.Removed != sn.removed {
			rr.viol("C12", "snapshot-attributes-differ", "after %s: %s on disk user=%v removed=%v, expected user=%v removed=%v", op.String(), n, dm.UserCreated, dm.Removed, sn.user, sn.removed)
			return
		}
	}
	// data: full compare after chain mutations, otherwise sampled
	switch op.K {
	case "snap", "rm", "clean", "revert", "reload", "resize", "mark", "punch", "cw":
		rr.compareLive("C01", "read-mismatch")
	default:
		if rr.step%4 == 3 {
			rr.compareLive("C01", "read-mismatch")
		}
	}
	// C06: retained user snapshots immutable
	if rr.s.Prop == "C06" || rr.s.Prop == "C11" || rr.step%3 == 2 {
		rr.checkSnapshots(rr.c06or11(), "user-snapshot-changed", "", "")
	}
	// C16: size
	if vm.Size != m.size {
		rr.viol("C16", "persisted-size-differs", "volume.meta size %d, expected %d", vm.Size, m.size)
	}
}

func (rr *repRun) finalChecks() {
	m := rr.m
	// let the puncher catch up completely, then everything must still hold
	rr.drainPuncher()
	rr.compareLive("C01", "read-mismatch")
	rr.checkSnapshots(rr.c06or11(), "user-snapshot-changed", "", "")
	if rr.stopped() {
		return
	}
	// reopen fixpoint (C12): same chain, attributes and data after close+open
	if m.open {
		var before map[string]types.DiskInfo
		r := rr.srv.Replica()
		rr.do("listdisks", func() { before = r.ListDisks() })
		mode := m.mode
		sel := int64(0)
		if mode == "WO" {
			sel = 8
		} else if mode == "INIT" {
			sel = 9
		}
		rr.reopen(rr.s.Seed%2 == 0, sel)
		if rr.stopped() {
			return
		}
		rr.afterStep(Op{K: "final-reopen"})
		if rr.stopped() {
			return
		}
		var after map[string]types.DiskInfo
		r = rr.srv.Replica()
		rr.do("listdisks", func() { after = r.ListDisks() })
		for n, b := range before {
			a, ok := after[n]
			if !ok {
				if _, isSnap := m.snaps[n]; isSnap || strings.HasPrefix(n, "volume-head") {
					rr.viol("C12", "disk-lost-on-reopen", "disk %s disappeared on reopen", n)
					return
				}
				continue
			}
			// (a stored counter <= 1 is rewritten with the current one on open, by design)
			if a.Parent != b.Parent || a.Removed != b.Removed || a.UserCreated != b.UserCreated || a.Created != b.Created ||
				(b.RevisionCounter > 1 && a.RevisionCounter != b.RevisionCounter) {
				rr.viol("C12", "attributes-changed-on-reopen", "disk %s: before %+v after %+v", n, b, a)
				return
			}
		}
		rr.checkSnapshots(rr.c06or11(), "user-snapshot-changed", "", "")
	}
}

// chainDigest digests exactly the files that make up the live chain (plus
// volume.meta and the revision counter): what a refused operation must not touch.
func (rr *repRun) chainDigest() string {
	var vm volMeta
	if err := readJSON(filepath.Join(rr.dir, "volume.meta"), &vm); err != nil {
		return "no-volume-meta:" + err.Error()
	}
	chain, _, err := diskChain(rr.dir, vm.Head)
	keep := map[string]bool{"volume.meta": true, "revision.counter": true}
	for _, c := range chain {
		keep[c] = true
		keep[c+".meta"] = true
	}
	d, derr := dirDigest(rr.dir, func(n string) bool { return !keep[n] })
	return fmt.Sprintf("%s|%v|%v", d, err, derr)
}

var restActions = []string{"start", "reload", "updatecloneinfo", "snapshot", "open", "close", "resize", "removedisk",
	"replacedisk", "setrebuilding", "setlogging", "create", "revert", "prepareremovedisk", "setrevisioncounter",
	"setreplicamode", "setcheckpoint", "bogus", "", "updatediskmode", "setreplicacounter"}

// mustRefuse: state -> actions that cannot be valid there whatever the advertised table says.
// closed: nothing that needs the open engine; rebuilding (chain being replaced by a sync):
// nothing that creates, removes or re-links chain members, and no second attach; open: no
// second attach or create.
var mustRefuse = map[string]map[string]bool{
	"closed":     {"snapshot": true, "reload": true, "close": true, "setrebuilding": true, "setreplicamode": true, "setrevisioncounter": true, "setcheckpoint": true},
	"rebuilding": {"snapshot": true, "revert": true, "removedisk": true, "prepareremovedisk": true, "replacedisk": true, "open": true, "create": true},
	"open":       {"open": true, "create": true},
}

const restBody = `{"name":"zz","created":"2020-01-03T00:00:00Z","size":"16777216","rebuilding":true,"mode":"RW","counter":"77","snapshotName":"zz","Action":"start","target":"volume-snap-a.img","source":"volume-snap-b.img","snapname":"q","revisioncounter":"3","usercreated":true}`

// restProbe (C17): an action that GET /v1/replicas/1 does not advertise for the
// current state must be refused (status >= 400) and must have no side effect.
func (rr *repRun) restProbe(a int64) {
	if rr.router == nil {
		rr.router = rrest.NewRouter(rrest.NewServer(rr.srv))
	}
	var adv struct {
		State   string            `json:"state"`
		Actions map[string]string `json:"actions"`
	}
	var code int
	rr.do("rest-get", func() {
		rec := httptest.NewRecorder()
		rr.router.ServeHTTP(rec, httptest.NewRequest("GET", "http://10.0.0.2:9502/v1/replicas/1", nil))
		code = rec.Code
		json.Unmarshal(rec.Body.Bytes(), &adv)
	})
	if code != 200 {
		rr.viol("C14", "get-replica-failed", "GET /v1/replicas/1 returned %d", code)
		return
	}
	action := restActions[int(a)%len(restActions)]
	// Independent of what the replica advertises: actions that cannot be valid in the state the
	// MODEL says the replica is in (a small core that follows from the design, not a copy of the
	// shipped table) must be refused.
	mstate := "closed"
	if rr.m.open {
		mstate = "open"
		if rr.m.rebuilding {
			mstate = "rebuilding"
		}
	}
	must := mustRefuse[mstate][action]
	if _, ok := adv.Actions[action]; ok && !must {
		rr.note("rest", "advertised")
		return
	}
	if must {
		rr.res.stat("rest_out_of_state_probes", 1)
	}
	rr.drainPuncher()
	before := rr.capture()
	rr.do("rest-post", func() {
		rec := httptest.NewRecorder()
		req := httptest.NewRequest("POST", "http://10.0.0.2:9502/v1/replicas/1?action="+action, strings.NewReader(restBody))
		req.Header.Set("Content-Type", "application/json")
		rr.router.ServeHTTP(rec, req)
		code = rec.Code
	})
	rr.note("rest", fmt.Sprintf("%s-%s-%d", adv.State, action, code))
	rr.res.stat("rest_unadvertised_probes", 1)
	if code < 400 {
		if must {
			rr.viol("C17", "out-of-state-action-accepted", "replica is %s (reports %q): POST ?action=%s answered %d", mstate, adv.State, action, code)
			return
		}
		rr.viol("C17", "unadvertised-action-accepted", "state %s: POST ?action=%s (not advertised) answered %d", adv.State, action, code)
		return
	}
	rr.drainPuncher()
	after := rr.capture()
	if strings.Join(before.chain, ",") != strings.Join(after.chain, ",") || !bytes.Equal(before.live, after.live) ||
		before.rev != after.rev || before.mode != after.mode || before.digest != after.digest {
		rr.viol("C17", "unadvertised-action-had-side-effects", "state %s: POST ?action=%s answered %d but changed the replica", adv.State, action, code)
	}
	if st, _ := rr.srv.Status(); string(st) != adv.State {
		rr.viol("C17", "unadvertised-action-changed-state", "state %s -> %s after refused action %s", adv.State, st, action)
	}
}

// badRequest (C12): management calls with invalid arguments leave everything as it was.
func (rr *repRun) badRequest(a int64) {
	m := rr.m
	if !m.open {
		rr.note("bad", "skip")
		return
	}
	r := rr.srv.Replica()
	var chain []string
	rr.do("chain", func() { chain, _ = r.Chain() })
	if rr.stopped() || len(chain) == 0 {
		return
	}
	head := chain[0]
	base := chain[len(chain)-1]
	rr.drainPuncher()
	before := rr.capture()
	var err error
	what := ""
	mustRefuse := false
	switch a % 7 {
	case 0:
		what, mustRefuse = "removedisk(head)", true
		rr.do("bad", func() { err = rr.srv.RemoveDiffDisk(head) })
	case 1:
		if len(chain) < 2 {
			rr.note("bad", "skip")
			return
		}
		what, mustRefuse = "removedisk(latest)", true
		rr.do("bad", func() { err = rr.srv.RemoveDiffDisk(chain[1]) })
	case 2:
		what = "removedisk(unknown)"
		rr.do("bad", func() { err = rr.srv.RemoveDiffDisk("volume-snap-doesnotexist.img") })
	case 3:
		what = "prepareremovedisk(unknown)"
		rr.do("bad", func() { _, err = rr.srv.PrepareRemoveDisk("doesnotexist") })
	case 4:
		if len(chain) < 2 {
			rr.note("bad", "skip")
			return
		}
		what, mustRefuse = "prepareremovedisk(base)", true
		var acts []replica.PrepareRemoveAction
		rr.do("bad", func() { acts, err = rr.srv.PrepareRemoveDisk(base) })
		if err == nil && len(acts) == 0 {
			err = fmt.Errorf("no actions")
		}
	case 5:
		what, mustRefuse = "prepareremovedisk(head)", true
		var acts []replica.PrepareRemoveAction
		rr.do("bad", func() { acts, err = rr.srv.PrepareRemoveDisk(head) })
		if err == nil && len(acts) == 0 {
			err = fmt.Errorf("no actions")
		}
	case 6:
		what, mustRefuse = "revert(unknown)", true
		rr.do("bad", func() { err = rr.srv.Revert("volume-snap-doesnotexist.img", "2020-01-04T00:00:00Z") })
	}
	if rr.stopped() {
		return
	}
	rr.note("bad", fmt.Sprintf("%d-%s", a%7, okstr(err)))
	if mustRefuse && err == nil && m.mode == "RW" && a%7 != 6 {
		rr.viol("C11", "protected-disk-accepted-for-deletion", "%s succeeded", what)
		return
	}
	if mustRefuse && err == nil {
		rr.viol("C12", "invalid-request-accepted", "%s succeeded in mode %s", what, m.mode)
		return
	}
	rr.drainPuncher()
	rr.mustBeNoop("C12", what, before)
}

func (rr *repRun) debugDump(op Op) {
	fmt.Fprintf(os.Stderr, "--- after step %d %s (sim t=%v)\n", rr.step, op.String(), rr.w.Now())
	ents, _ := os.ReadDir(rr.dir)
	for _, e := range ents {
		if !strings.HasSuffix(e.Name(), ".img") {
			continue
		}
		f, err := os.Open(filepath.Join(rr.dir, e.Name()))
		if err != nil {
			continue
		}
		st, _ := f.Stat()
		rs, _ := dataRanges(f, st.Size())
		f.Close()
		fmt.Fprintf(os.Stderr, "    %-28s size=%d data=%v\n", e.Name(), st.Size(), rs)
	}
}
