package sim

import (
	"encoding/json"
	"fmt"
	"net"
	"net/http"
	"os"
	"sort"
	"strings"
	"testing"
	"testing/synctest"
	"time"

	"github.com/openebs/jiva/backend/dynamic"
	"github.com/openebs/jiva/backend/remote"
	"github.com/openebs/jiva/controller"
	cclient "github.com/openebs/jiva/controller/client"
	crest "github.com/openebs/jiva/controller/rest"
	"github.com/openebs/jiva/rpc"
	"github.com/openebs/jiva/types"
	"verif/simrt"
)

// electsim (C09): the real controller (registerReplica / signalReplica / Start,
// REST router, real remote.Factory) against scripted replica endpoints whose
// revision counts, states and reachability are chosen by the script, which also
// decides the order and repetition of registrations and start calls.

type electsim struct{}

func (electsim) Name() string { return "electsim" }

func init() {
	register(electsim{})
	propEngines["C09"] = append(propEngines["C09"], "electsim")
}

type stubRep struct {
	idx        int
	ip         string
	node       *simrt.Node
	uuid       string
	rev        int64
	state      string // closed | dirty | rebuilding | open
	up         bool   // answers /ping and the start signal
	signals    int
	opened     bool
	mode       string
	lastReg    time.Duration
	registered bool
	moves      int
	oldIPs     map[string]bool // addresses this replica had before it moved (nobody answers there any more)
}

func (electsim) Generate(rng *Rand, prop, tier string) *Script {
	s := &Script{Engine: "electsim", Prop: prop, Cfg: map[string]int64{}}
	rf := []int64{1, 2, 3, 3, 3, 4, 5}[rng.Intn(7)]
	s.Cfg["rf"] = rf
	n := int(rf)
	s.Cfg["perm"] = int64(rng.Intn(2))
	for i := 0; i < n; i++ {
		rev := int64(rng.Range(1, 6))
		if rng.Bool(30) {
			rev = int64(rng.Range(1, 1000))
		}
		s.Ops = append(s.Ops, Op{K: "init", A: int64(i), B: rev, C: int64(rng.Intn(10))}) // C: 0-6 closed, 7 dirty, 8-9 rebuilding
	}
	nops := rng.Range(3, 25)
	moves := rng.Bool(40)
	for i := 0; i < nops; i++ {
		r := int64(rng.Intn(n))
		switch x := rng.Intn(100); {
		case x < 55:
			s.Ops = append(s.Ops, Op{K: "reg", A: r})
		case x < 65:
			s.Ops = append(s.Ops, Op{K: "down", A: r})
		case x < 75:
			s.Ops = append(s.Ops, Op{K: "up", A: r})
		case x < 80:
			s.Ops = append(s.Ops, Op{K: "start", A: r})
		case x < 84:
			// every attached replica is removed: the volume goes down and the next start is a new election round
			// F: the frontend is already down when they leave (what a volume revert that fails on every replica does)
			s.Ops = append(s.Ops, Op{K: "drop", F: rng.Bool(40)})
		case x < 86 && moves:
			// the replica process is rescheduled: same data and UUID, a new address; nobody answers at the old one
			s.Ops = append(s.Ops, Op{K: "move", A: r})
		case x < 88:
			s.Ops = append(s.Ops, Op{K: "setrev", A: r, B: int64(rng.Range(1, 1000))})
		case x < 93:
			s.Ops = append(s.Ops, Op{K: "setstate", A: r, C: int64(rng.Intn(10))})
		default:
			s.Ops = append(s.Ops, Op{K: "adv", A: int64(rng.Range(1, 7000))})
		}
	}
	return s
}

type elRun struct {
	s         *Script
	res       *Result
	w         *simrt.World
	ctrl      *controller.Controller
	ctrlN     *simrt.Node
	reps      []*stubRep
	rf        int
	step      int
	shape     []string
	signalled string // ip last signalled "start" successfully
	// the harness's own view of the current election round: who has registered since the
	// volume last had no replica attached (the controller's map is NOT consulted for this)
	round map[string]types.RegReplica
	// replicas the controller has found unreachable since their last registration
	unreach map[string]bool
}

func (er *elRun) viol(clause, format string, a ...interface{}) {
	if er.res.V != nil {
		return
	}
	er.res.V = &Violation{Prop: "C09", Clause: clause, Msg: fmt.Sprintf(format, a...), Step: er.step}
}

func (electsim) Run(t *testing.T, s *Script) *Result {
	res := &Result{Stats: map[string]int64{}}
	infra := inBubble(t, func() {
		er := &elRun{s: s, res: res}
		er.run()
	})
	if infra != "" && res.Infra == "" {
		res.Infra = infra
	}
	return res
}

func stateOf(c int64) string {
	switch {
	case c <= 6:
		return "closed"
	case c == 7:
		return "dirty"
	default:
		return "rebuilding"
	}
}

// stub REST of a replica: just enough for SignalToAdd, VerifyReplicaAlive and Factory.Create
func (sr *stubRep) ServeHTTP(rw http.ResponseWriter, req *http.Request) {
	if !sr.up {
		// unreachable is modelled in the HTTP policy; a reachable process always answers
	}
	switch {
	case req.URL.Path == "/ping":
		rw.Write([]byte("pong"))
	case strings.HasPrefix(req.URL.Path, "/v1/replicas/1"):
		if req.Method == "POST" {
			switch req.URL.Query().Get("action") {
			case "start":
				sr.signals++
			case "open":
				sr.opened = true
				sr.state = "open"
			case "setreplicamode":
				var in struct{ Mode string }
				json.NewDecoder(req.Body).Decode(&in)
				sr.mode = in.Mode
			}
		}
		st := sr.state
		b, _ := json.Marshal(map[string]interface{}{
			"id": "1", "type": "replica", "actions": map[string]string{}, "links": map[string]string{},
			"state": st, "size": "65536", "sectorSize": 512, "revisioncounter": fmt.Sprint(sr.rev), "clonestatus": "NA",
			"chain": []string{"volume-head-000.img"}, "replicamode": sr.mode, "remainsnapshots": 100, "checkpoint": "",
		})
		rw.Header().Set("Content-Type", "application/json")
		rw.Write(b)
	default:
		rw.WriteHeader(404)
	}
}

type nullProc struct{}

func (nullProc) ReadAt(b []byte, off int64) (int, error)  { return len(b), nil }
func (nullProc) WriteAt(b []byte, off int64) (int, error) { return len(b), nil }
func (nullProc) Sync() (int, error)                       { return 0, nil }
func (nullProc) Unmap(o, l int64) (int, error)            { return 0, nil }
func (nullProc) Close() error                             { return nil }
func (nullProc) PingResponse() error                      { return nil }

func (er *elRun) run() {
	s := er.s
	w := simrt.NewWorld(s.Seed, synctest.Wait)
	w.StrictLocks = os.Getenv("VERIF_LOOSE_LOCKS") == ""
	defer w.Close()
	er.w = w
	w.KeysPerm = s.Cfg["perm"] != 0
	w.TraceOn = os.Getenv("VERIF_TRACE") != ""
	er.rf = int(s.Cfg["rf"])
	os.Setenv("REPLICATION_FACTOR", fmt.Sprint(er.rf))
	er.ctrlN = w.AddNode("ctrl", "10.0.0.1")
	fe := &simFrontend{}
	ready := false
	simrt.GoNamed(er.ctrlN, "ctrl/main", func() {
		er.ctrl = controller.NewController(controller.WithName("vol1"),
			controller.WithBackend(dynamic.New(map[string]types.BackendFactory{"tcp": remote.New()})),
			controller.WithFrontend(fe, "10.0.0.1"), controller.WithRF(er.rf))
		h := http.Handler(crest.NewRouter(crest.NewServer(er.ctrl)))
		ready = true
		w.Kick()
		simrt.ListenAndServe("10.0.0.1:9501", h)
	})
	w.Pump(func() bool { return ready && w.HasHTTP("10.0.0.1:9501") }, time.Second, nil)
	startRep := func(sr *stubRep) {
		sr.node = w.AddNode(fmt.Sprintf("r%d.%d", sr.idx+1, sr.moves), sr.ip)
		w.ServeOn(sr.node, sr.ip+":9502", sr)
		node := sr.node
		ip := sr.ip
		simrt.GoNamed(node, node.Name+"/rpc", func() {
			l, err := simrt.ListenTCP("tcp", &net.TCPAddr{IP: net.ParseIP(ip), Port: 9503})
			if err != nil {
				return
			}
			for {
				c, err := l.AcceptTCP()
				if err != nil {
					return
				}
				srv := rpc.NewServer(c, nullProc{})
				simrt.Go(func() { srv.Handle() })
			}
		})
	}
	for i := 0; i < er.rf; i++ {
		sr := &stubRep{idx: i, ip: fmt.Sprintf("10.0.0.%d", i+2), uuid: fmt.Sprintf("uuid-%d", i), rev: 1, state: "closed", up: true, oldIPs: map[string]bool{}}
		er.reps = append(er.reps, sr)
		startRep(sr)
	}
	// the policy hook sees every HTTP request at the moment it is sent
	w.HTTPPolicy = func(r *simrt.HTTPReqInfo) simrt.HTTPVerdict {
		host := hostOnly(r.Addr)
		sr := er.repByIP(host)
		if sr == nil {
			for _, x := range er.reps {
				if x.oldIPs[host] {
					// an address a replica has left: nobody is there
					if r.From == er.ctrlN {
						if er.unreach == nil {
							er.unreach = map[string]bool{}
						}
						er.unreach[host] = true
					}
					return simrt.HTTPRefuse
				}
			}
			return simrt.HTTPDeliver
		}
		if r.From == er.ctrlN && r.Method == "POST" && strings.Contains(r.URL, "action=start") {
			var in struct{ Action string }
			json.Unmarshal(r.Body, &in)
			if in.Action == "start" { // ("add" signals use the same URL)
				er.onStartSignal(sr)
			}
		}
		if !sr.up {
			if r.From == er.ctrlN {
				// the controller found this replica unreachable: it may forget the registration
				// for the revision comparison until the replica registers again (the
				// registration still counts as made for the majority of this round)
				if er.unreach == nil {
					er.unreach = map[string]bool{}
				}
				er.unreach[sr.ip] = true
			}
			return simrt.HTTPRefuse
		}
		return simrt.HTTPDeliver
	}
	pump := func(d time.Duration, done func() bool) bool { return w.Pump(done, w.Now()+d, nil) }
	for i, op := range s.Ops {
		if er.res.V != nil {
			break
		}
		er.step = i
		sr := er.reps[int(op.A)%len(er.reps)]
		switch op.K {
		case "init":
			sr.rev, sr.state = op.B, stateOf(op.C)
		case "setrev":
			// a replica's revision count and state cannot change while it sits in the registration loop
			if !sr.opened && !sr.registered {
				sr.rev = op.B
			}
		case "setstate":
			if !sr.opened && !sr.registered {
				sr.state = stateOf(op.C)
			}
		case "move":
			if sr.opened {
				continue // an attached replica leaves through "drop"
			}
			w.KillNode(sr.node, "moved")
			sr.oldIPs[sr.ip] = true
			sr.moves++
			sr.ip = fmt.Sprintf("10.0.%d.%d", sr.moves, sr.idx+2)
			sr.registered, sr.signals = false, 0
			startRep(sr)
			er.res.stat("replica_moved", 1)
			er.shape = append(er.shape, "move")
		case "down":
			sr.up = false
			er.res.stat("fault_replica_unreachable", 1)
		case "up":
			sr.up = true
		case "adv":
			pump(time.Duration(op.A)*time.Millisecond, nil)
		case "reg":
			done := false
			var err error
			sr.registered = true
			rev, st, uuid, ip := sr.rev, sr.state, sr.uuid, sr.ip
			if sr.opened {
				st = "dirty"
			}
			if er.round == nil {
				er.round = map[string]types.RegReplica{}
			}
			if len(er.ctrl.ListReplicas()) == 0 {
				// a registration counts for the start it was made for; a replica that has moved is still ONE
				// replica: its registration under the old address is replaced
				for k, v := range er.round {
					if v.UUID == uuid && k != ip {
						delete(er.round, k)
						er.res.stat("moved_replica_registered_again", 1)
					}
				}
				er.round[ip] = types.RegReplica{Address: ip, UUID: uuid, RevCount: rev, RepState: st}
			}
			delete(er.unreach, ip)
			simrt.GoNamed(sr.node, fmt.Sprintf("%s/reg%d", sr.node.Name, i), func() {
				cc := cclient.NewControllerClient("http://10.0.0.1:9501")
				err = cc.Register(ip, uuid, rev, "Backend", time.Second, st)
				done = true
				w.Kick()
			})
			if !pump(5*time.Minute, func() bool { return done }) {
				er.viol("register-hung", "registration of %s did not return", sr.ip)
			}
			_ = err
			er.shape = append(er.shape, "reg")
			er.res.stat("registrations", 1)
		case "drop":
			list := append([]types.Replica(nil), er.ctrl.ListReplicas()...)
			if len(list) == 0 {
				continue
			}
			done := false
			feDown := op.F
			simrt.GoNamed(er.ctrlN, fmt.Sprintf("admin/drop%d", i), func() {
				if feDown {
					fe.Shutdown()
				}
				cc := cclient.NewControllerClient("http://10.0.0.1:9501")
				for _, r := range list {
					cc.DeleteReplica(r.Address)
				}
				done = true
				w.Kick()
			})
			if !pump(10*time.Minute, func() bool { return done }) {
				er.viol("drop-hung", "removing the replicas did not return")
				break
			}
			if len(er.ctrl.ListReplicas()) == 0 {
				// a new round: everybody has to come back and register again
				er.round = map[string]types.RegReplica{}
				er.unreach = map[string]bool{}
				er.signalled = ""
				for _, x := range er.reps {
					x.opened, x.registered, x.signals, x.mode = false, false, 0, ""
					if x.state == "open" {
						x.state = "closed"
					}
				}
				er.res.stat("volume_dropped", 1)
				er.shape = append(er.shape, "drop")
			}
		case "start":
			if sr.signals == 0 && er.ctrl.MaxRevReplica == sr.ip {
				// a replica calls Start only after it was told to; the tentative leader
				// starting unasked is not a reachable history
				continue
			}
			done := false
			var err error
			before := append([]types.Replica(nil), er.ctrl.ListReplicas()...)
			leader := er.ctrl.MaxRevReplica
			ip := sr.ip
			simrt.GoNamed(sr.node, fmt.Sprintf("%s/start%d", sr.node.Name, i), func() {
				cc := cclient.NewControllerClient("http://10.0.0.1:9501")
				err = cc.Start("tcp://" + ip + ":9502")
				done = true
				w.Kick()
			})
			if !pump(10*time.Minute, func() bool { return done }) {
				er.viol("start-hung", "start from %s did not return", sr.ip)
				break
			}
			er.shape = append(er.shape, "start:"+okstr(err))
			er.res.stat("start_calls_"+okstr(err), 1)
			after := er.ctrl.ListReplicas()
			if len(before) == 0 && leader != ip {
				// (iii) only the replica that was told to start may start the volume
				if err == nil && len(after) > 0 {
					er.viol("start-accepted-from-unsignalled-replica", "Start from %s succeeded although the controller had signalled %q", ip, leader)
				}
				if len(after) != 0 {
					er.viol("refused-start-changed-membership", "Start from %s (not the signalled %q) left replicas %v", ip, leader, after)
				}
			}
			if err == nil && len(before) == 0 && len(after) > 0 {
				er.res.stat("volume_started", 1)
			}
		}
	}
	er.res.SimNanos = int64(w.Now())
	er.res.Steps = w.Steps
	for k, v := range w.Probes() {
		er.res.Stats[k] += int64(v)
	}
	er.res.Shape = hashStrings(er.shape)
	er.res.Nontrivial = er.res.Stats["start_signals"] > 0
	er.res.TraceHash = hashTrace(w.Trace)
	if len(w.Panics) > 0 && er.res.V == nil {
		er.viol("panic", "%s", w.Panics[0])
	}
}

func hostOnly(a string) string {
	if i := strings.LastIndex(a, ":"); i >= 0 {
		return a[:i]
	}
	return a
}

// onStartSignal runs on the controller goroutine that is sending the "start"
// signal (inside registerReplica, holding the controller lock): the election
// state can be read race-free here.
func (er *elRun) onStartSignal(target *stubRep) {
	c := er.ctrl
	er.res.stat("start_signals", 1)
	// judged against the registrations of THIS round as the harness saw them being made;
	// the controller's own map is only shown in the message
	reg := map[string]types.RegReplica{}
	for k, v := range er.round {
		reg[k] = v
	}
	var own []string
	for k, v := range c.RegisteredReplicas {
		own = append(own, fmt.Sprintf("%s:rev=%d", k, v.RevCount))
	}
	sort.Strings(own)
	var ips []string
	for k := range reg {
		ips = append(ips, k)
	}
	sort.Strings(ips)
	// (i) only after a majority registered
	if len(reg) < er.rf/2+1 {
		er.viol("start-signalled-before-majority", "start signalled to %s with %d of RF=%d replicas registered for this start (%v; the controller's map: %v)", target.ip, len(reg), er.rf, ips, own)
		return
	}
	// ... and the controller's own registry (which forgets a leader it found unreachable
	// until that replica registers again) must hold a majority as well
	if len(c.RegisteredReplicas) < er.rf/2+1 {
		er.viol("start-signalled-before-majority", "start signalled to %s while the controller's registry holds %d of RF=%d replicas (%v)", target.ip, len(c.RegisteredReplicas), er.rf, own)
		return
	}
	if _, ok := reg[target.ip]; !ok {
		er.viol("start-signalled-to-unregistered-replica", "start signalled to %s which is not registered (%v)", target.ip, ips)
		return
	}
	// A repeated signal to the replica that was already picked in this election
	// round (it registered again) is not a new pick: later registrants are ignored
	// by design while the picked replica stays reachable.
	resignal := c.StartSignalled && er.signalled == target.ip
	er.signalled = target.ip
	if resignal {
		er.res.stat("re_signals", 1)
		return
	}
	// (ii) highest revision among registered, reachable, not rebuilding
	best := int64(-1)
	var bestIPs []string
	for _, ip := range ips {
		r := reg[ip]
		sr := er.repByIP(ip)
		if sr == nil || !sr.up || er.unreach[ip] || r.RepState == "rebuilding" {
			continue
		}
		if r.RevCount > best {
			best, bestIPs = r.RevCount, []string{ip}
		} else if r.RevCount == best {
			bestIPs = append(bestIPs, ip)
		}
	}
	tr := reg[target.ip]
	if tr.RepState == "rebuilding" {
		er.viol("rebuilding-replica-elected", "start signalled to %s which registered in state rebuilding", target.ip)
		return
	}
	if target.up && tr.RevCount < best {
		er.viol("stale-replica-elected", "start signalled to %s (revision %d) although %v registered revision %d and is reachable and not rebuilding (registered: %s)",
			target.ip, tr.RevCount, bestIPs, best, regSummary(reg, ips))
		return
	}
}

func regSummary(reg map[string]types.RegReplica, ips []string) string {
	var b []string
	for _, ip := range ips {
		b = append(b, fmt.Sprintf("%s:rev=%d,%s", ip, reg[ip].RevCount, reg[ip].RepState))
	}
	return strings.Join(b, " ")
}

func (er *elRun) repByIP(ip string) *stubRep {
	for _, sr := range er.reps {
		if sr.ip == ip {
			return sr
		}
	}
	return nil
}
