package sim

import (
	"bytes"
	"encoding/binary"
	"fmt"
	"os"
	"path/filepath"
	"runtime"
	"sort"
	"strings"
	"sync"
	"testing"
	"testing/synctest"
	"time"

	"github.com/openebs/jiva/replica"
	"github.com/openebs/jiva/rpc"
	jsync "github.com/openebs/jiva/sync"
	"github.com/openebs/jiva/types"
	"verif/simrt"
)

// clustersim: controller + N replicas on a simulated network with fault
// injection; serves C02 C03 C04 C05 C07 C13 C16 C18 (and parts of C09 C10).

type clustersim struct{}

func (clustersim) Name() string { return "clustersim" }

func init() {
	register(clustersim{})
	for _, p := range []string{"C02", "C03", "C04", "C05", "C18", "C07", "C13", "C16", "C10", "C11"} {
		propEngines[p] = append(propEngines[p], "clustersim")
	}
}

func holeChanInit() interface{} { c := make(chan replica.Hole, 1<<14); return &c }

// ---------------------------------------------------------------- model

// volModel is the single-copy register the volume must behave like: per
// 512-byte sector the acknowledged stamp word plus the stamps of writes that
// failed or are in flight (old-or-new until the next acknowledged overwrite).
type volModel struct {
	size  int64
	val   []uint64
	cands [][]uint64
	wild  []bool // sector was unmapped since its last acknowledged write: content indeterminate (SCSI UNMAP)
}

func newVolModel(size int64) *volModel {
	n := size / sect
	return &volModel{size: size, val: make([]uint64, n), cands: make([][]uint64, n), wild: make([]bool, n)}
}

func stampWord(opIdx int, sector int64) uint64 {
	return uint64(opIdx+1)<<32 | uint64(sector)&0xffffffff
}

func (m *volModel) addCand(opIdx int, off, n int64) {
	if off < 0 || off+n > m.size {
		return // out-of-range I/O is never applied (judged separately)
	}
	for s := off / sect; s < (off+n)/sect; s++ {
		m.cands[s] = append(m.cands[s], stampWord(opIdx, s))
	}
}

func (m *volModel) ack(opIdx int, off, n int64, inflight map[uint64]bool) {
	if off < 0 || off+n > m.size {
		return
	}
	for s := off / sect; s < (off+n)/sect; s++ {
		w := stampWord(opIdx, s)
		m.val[s] = w
		m.wild[s] = false
		var keep []uint64
		for _, c := range m.cands[s] {
			if c != w && inflight[c>>32] {
				keep = append(keep, c)
			}
		}
		m.cands[s] = keep
	}
}

// sectorOK: every 8-byte word of the sector equals the acknowledged word or one candidate.
func (m *volModel) check(buf []byte, off int64, strict bool) (bool, string) {
	ok, why, _ := m.check2(buf, off, strict)
	return ok, why
}

// check2 also reports the first offending sector.
func (m *volModel) check2(buf []byte, off int64, strict bool) (bool, string, int64) {
	for s := off / sect; s < (off+int64(len(buf)))/sect; s++ {
		b := buf[(s*sect - off):(s*sect - off + sect)]
		w0 := binary.LittleEndian.Uint64(b)
		uniform := true
		for i := 8; i < sect; i += 8 {
			if binary.LittleEndian.Uint64(b[i:]) != w0 {
				uniform = false
				break
			}
		}
		if m.wild[s] {
			continue
		}
		ok := uniform && w0 == m.val[s]
		if !ok && uniform && !strict {
			for _, c := range m.cands[s] {
				if c == w0 {
					ok = true
				}
			}
		}
		if !ok {
			return false, fmt.Sprintf("sector %d: got word %#x (uniform=%v), acknowledged %#x, in-doubt %x", s, w0, uniform, m.val[s], m.cands[s]), s
		}
	}
	return true, "", -1
}

// ---------------------------------------------------------------- ops

type ioOp struct {
	idx      int
	kind     string
	off, n   int64
	data     []byte
	buf      []byte
	issuedAt time.Duration
	done     bool
	doneAt   time.Duration
	ret      int
	err      error
	feDown   bool
	// sampled when the op's goroutine acquired the controller lock
	acquired bool
	acqSeq   int
	list     []types.Replica
	ro       bool
	rwCount  int
	epochs   map[string]int
	frames   []*obsFrame
	replies  []*obsFrame
	// set when an acknowledged write is judged (for the D20 classifier)
	acked       bool
	rwHolders   int // replicas listed RW at that moment that hold it
	attachedN   int
	coldStarts0 int             // cold-start elections seen so far
	holdersN    int             // attached replicas (RW or WO) that had applied it when it was acknowledged
	applied     map[string]bool // which replicas held the write's data when it was judged (acknowledged or not)
	// set when a write that was NOT acknowledged is judged (for the D23 classifier)
	woAppliers []string // replicas that were WO (rebuilding) at that moment and applied it
}

func (o *ioOp) ok() bool {
	if o.err != nil {
		return false
	}
	if o.kind == "w" || o.kind == "r" {
		return int64(o.ret) == o.n
	}
	return true
}

type adminOp struct {
	idx  int
	kind string
	arg  string
	done bool
	err  error
	at   time.Duration
	// sampled when the request's handler first took the controller write lock
	acquired   bool
	list       []types.Replica
	lastList   []types.Replica
	ctrlSize   int64 // the controller's idea of the volume size when the request took the lock
	checkpoint string
	addsBefore int64
	missed     map[string]bool
	// verify: the mode of the target when the request was sent, and the snapshot chains (names) of the
	// target and of an RW replica as they were on disk then
	verifyWasWO bool
	verifyPre   *chainPair
	httpIdx0    int // len(cluster.httpLog) when the request was sent
}

type clRun struct {
	t    *testing.T
	s    *Script
	res  *Result
	w    *simrt.World
	c    *cluster
	m    *volModel
	step int

	ios      []*ioOp
	byG      map[string]*ioOp
	curOp    *ioOp
	admins   []*adminOp
	inflight map[uint64]bool // op idx+1 of writes issued and not completed

	// membership epochs: address -> epoch (incremented every time the address (re)appears in the list)
	epoch                map[string]int
	present              map[string]bool
	lastList             []types.Replica
	removedAt            map[string]time.Duration // address -> time it was last seen leaving the list
	abortedWO            map[string]bool          // address -> its last rebuild ended without a promotion (left the list while WO)
	electionTies         []map[string]bool        // per cold-start election: who had registered with the elected replica's revision count
	electedAddrs         []string                 // who each cold-start election picked (index = election number - 1)
	halfRebuiltElections []int                    // cold-start election numbers that picked such a replica (D25)
	reverts              []*revertRec             // successful volume reverts (for elections of replicas that missed them)
	errSince             map[string]time.Duration // address -> when it was first seen listed in mode ERR (C05)
	woSince              map[string]int           // address -> index of first io op issued after it appeared as WO

	frameMu      sync.Mutex
	verifyReads  int
	lastPromoted string
	hooks        map[string]int
	httpDrops    map[string]*[4]int
	everWild     []bool
	reverted     bool
	foldsAtWO    map[string]int64
	lastMode     map[string]types.Mode
	qpoints      int
	pendingPromo string
	curAdmin     *adminOp
	snaps        []*snapRec
	faultsActive bool
	acqCounter   int
	shape        []string
	mutations    int
	compares     int
	settled      bool
	attStarts    map[string]int // address -> rn.starts when the controller attached it
	settling     bool
	coldStarts   int
	idleWindow   bool
}

func (cr *clRun) viol(prop, clause, format string, a ...interface{}) {
	if cr.res.V != nil || cr.res.Other != "" || cr.res.Infra != "" || cr.res.Abandoned != "" {
		return
	}
	if a := cr.curAdmin; a != nil && a.kind == "verify" && a.verifyWasWO && clause != "verify-accepted-with-different-chains" && clause != "management-request-hung" {
		// an out-of-band verifyrebuild for a rebuilding replica is in flight: if the controller accepts it
		// (it cannot know that the copy has not finished) what follows is the harness's doing
		if cr.c.ctrl != nil && modeOf(cr.c.ctrl.ListReplicas(), a.arg) == types.RW {
			cr.res.Abandoned = "out-of-band verifyrebuild accepted while the copy was running (" + clause + " not judged)"
			return
		}
	}
	if cr.s.Prop == "C07" && prop == "C02" && clause == "laggard-still-attached" {
		// C02's clause (a replica that missed a write is still attached); a C07 run goes on to see what C07
		// is about: whether that replica, if it is a rebuilding one, gets promoted with the write missing
		cr.res.stat("c02_laggard_seen_run_continues", 1)
		return
	}
	v := &Violation{Prop: prop, Clause: clause, Msg: fmt.Sprintf(format, a...), Step: cr.step}
	if prop == cr.s.Prop {
		cr.res.V = v
	} else {
		cr.res.Other = v.Sig() + ": " + v.Msg
	}
}

func (cr *clRun) stopped() bool {
	return cr.res.V != nil || cr.res.Other != "" || cr.res.Infra != "" || cr.res.Abandoned != ""
}

func (clustersim) Run(t *testing.T, s *Script) *Result {
	res := &Result{Stats: map[string]int64{}}
	dir := newRunDir()
	if os.Getenv("VERIF_KEEP") == "" {
		defer os.RemoveAll(dir)
	}
	infra := inBubble(t, func() {
		cr := &clRun{t: t, s: s, res: res, byG: map[string]*ioOp{}, inflight: map[uint64]bool{}, epoch: map[string]int{},
			present: map[string]bool{}, removedAt: map[string]time.Duration{}, woSince: map[string]int{}}
		cr.run(dir)
	})
	if infra != "" && res.Infra == "" {
		res.Infra = infra
	}
	return res
}

func (cr *clRun) quorum() int { return cr.c.rf/2 + 1 }

func (cr *clRun) run(dir string) {
	s := cr.s
	w := simrt.NewWorld(s.Seed, synctest.Wait)
	w.StrictLocks = os.Getenv("VERIF_LOOSE_LOCKS") == ""
	w.LockJitter = time.Duration(s.Cfg["jitter"]) * time.Microsecond
	w.SelectJitter = int(s.Cfg["seljit"])
	defer w.Close()
	cr.w = w
	w.TraceOn = os.Getenv("VERIF_TRACE") != "" || s.Cfg["trace"] != 0
	w.KeysPerm = s.Cfg["perm"] != 0
	if os.Getenv("VERIF_LOG") != "" {
		w.Log = func(f string, a ...interface{}) {
			fmt.Fprintf(os.Stderr, "[sim %v] "+f+"\n", append([]interface{}{w.Now()}, a...)...)
		}
	}
	rf := int(s.Cfg["rf"])
	if rf < 1 {
		rf = 3
	}
	size := s.Cfg["blocks"] * blk
	nreps := rf + int(s.Cfg["spares"])
	types.ShouldPunchHoles = false
	types.MaxChainLength = 0
	jsync.SnapshotRetentionCount = 10
	if v := s.Cfg["retention"]; v > 0 {
		jsync.SnapshotRetentionCount = int(v)
	}
	// always explicit: SetRPCTimeout ignores zero, and a previous run's value would leak into this one
	rpcto := time.Duration(s.Cfg["rpcto"]) * time.Second
	if rpcto == 0 {
		rpcto = 30 * time.Second
	}
	types.RPCReadTimeout, types.RPCWriteTimeout = rpcto, rpcto
	rpc.SetRPCTimeout()
	cr.m = newVolModel(size)
	c := newCluster(w, cr.res, dir, rf, size, nreps)
	c.punchLag = s.Cfg["punchlag"]
	cr.c = c
	c.onFrame = cr.onFrame
	w.OnAcquire = cr.onAcquire
	w.OnRelease = cr.onRelease
	c.startController()
	for i := 0; i < rf && i < len(c.reps); i++ {
		c.startReplica(c.reps[i])
	}
	for i, op := range s.Ops {
		if cr.stopped() {
			break
		}
		cr.step = i
		cr.exec(i, op)
	}
	if !cr.stopped() && os.Getenv("VERIF_NOSETTLE") == "" { // (debugging aid: inspect the directories as the script left them)
		cr.step = len(s.Ops)
		cr.settle()
	}
	cr.res.SimNanos = int64(w.Now())
	cr.res.Steps = w.Steps
	for k, v := range w.Probes() {
		cr.res.Stats[k] += int64(v)
	}
	cr.res.Shape = hashStrings(cr.shape)
	cr.res.Nontrivial = cr.mutations > 0 && cr.compares > 0
	cr.res.TraceHash = hashTrace(w.Trace)
	cr.res.Trace = w.Trace
	for _, p := range w.Panics {
		// a panic on a node's goroutine is that process crashing (the node is
		// killed and restarted like any other exit); only a panic outside any node
		// is harness trouble
		if strings.HasPrefix(p, "harness:") && cr.res.V == nil && cr.res.Infra == "" {
			cr.res.Infra = "panic: " + p
		}
		cr.res.stat("process_panics", 1)
	}
}

func (cr *clRun) note(kind, outcome string) {
	cr.shape = append(cr.shape, kind+":"+outcome)
	cr.res.stat("op_"+kind+"_"+outcome, 1)
}

// pump runs the event loop for d of simulated time (or until done()).
func (cr *clRun) pump(d time.Duration, done func() bool) bool {
	return cr.w.Pump(done, cr.w.Now()+d, cr.onQuiescent)
}

func (cr *clRun) rep(a int64) *repNode { return cr.c.reps[int(a)%len(cr.c.reps)] }

func (cr *clRun) exec(i int, op Op) {
	c := cr.c
	// after a promotion: full-volume reads through the frontend, so that every RW
	// replica (the promoted one included) serves one from its in-memory block map
	for cr.verifyReads > 0 && !cr.stopped() && op.K != "boot" {
		cr.verifyReads--
		if _, up := c.fe.up(); !up || cr.m.size > 1<<20 {
			break
		}
		cr.issueIO(1000000+i*100+cr.verifyReads, Op{K: "r", A: 0, B: cr.m.size / sect})
		cr.res.stat("post_promotion_verify_reads", 1)
	}
	switch op.K {
	case "boot":
		// wait until the volume is up with all started replicas RW (bounded)
		ok := cr.pump(time.Duration(op.A)*time.Second, func() bool { return cr.allRW() })
		cr.note("boot", fmt.Sprint(ok))
	case "w", "r", "sync", "unmap":
		cr.issueIO(i, op)
	case "wait":
		ok := cr.pump(hangLimit, cr.idle)
		if !ok {
			cr.hung()
		}
		cr.note("wait", fmt.Sprint(ok))
	case "adv":
		pre := cr.idleImages(op.A)
		cr.idleWindow = pre != nil
		cr.pump(time.Duration(op.A)*time.Millisecond, nil)
		cr.idleWindow = false
		cr.note("adv", "ok")
		cr.checkIdleImages(pre)
	case "kill":
		rn := cr.rep(op.A)
		if rn.up {
			rn.scripted = true
			c.killReplica(rn, "script")
			cr.faultsActive = true
			cr.note("kill", rn.name)
			cr.res.stat("fault_kill", 1)
			cr.pump(time.Millisecond, nil)
		}
	case "restart":
		rn := cr.rep(op.A)
		if !rn.up {
			c.startReplica(rn)
			cr.note("restart", rn.name)
			cr.res.stat("fault_restart", 1)
		}
	case "replace":
		rn := cr.rep(op.A)
		if !rn.up && !cr.replaceIsSafe(rn) {
			// Destroying a replica's disk is a permanent failure. jiva keeps no durable
			// membership, so it can only promise anything if every other configured
			// replica is healthy (RW) at that moment: otherwise a later cold start may
			// form a majority from the empty disk plus a stale replica. Outside that
			// envelope the operation degrades to a plain restart (disk kept).
			c.startReplica(rn)
			cr.note("replace", "as-restart")
			return
		}
		if !rn.up {
			rn.inc++
			rn.dir = filepath.Join(rn.base, fmt.Sprintf("inc-%d", rn.inc))
			os.MkdirAll(rn.dir, 0700)
			// the replacement is provisioned with the size the volume was created with:
			// every grow so far has passed it by (same root cause as known finding D15)
			for _, a := range cr.admins {
				if a.kind == "resize" && a.missed != nil {
					a.missed[rn.addr] = true
				}
			}
			// ... and it holds none of the snapshots and reverts the destroyed disk held
			for _, sn := range cr.snaps {
				delete(sn.holders, rn.addr)
			}
			for _, rv := range cr.reverts {
				delete(rv.holders, rn.addr)
			}
			c.startReplica(rn)
			cr.note("replace", rn.name)
			cr.res.stat("fault_replace", 1)
		}
	case "part":
		rn := cr.rep(op.A)
		if rn.node != nil {
			cr.w.SetLink(c.ctrlN, rn.node, true)
			cr.faultsActive = true
			cr.note("part", rn.name)
			cr.res.stat("fault_partition", 1)
		}
	case "heal":
		rn := cr.rep(op.A)
		if rn.node != nil {
			cr.w.SetLink(c.ctrlN, rn.node, false)
			cr.note("heal", rn.name)
		}
	case "resetconn":
		rn := cr.rep(op.A)
		for _, conn := range cr.w.Conns() {
			if conn.ServerNode() == rn.node && strings.HasSuffix(conn.RemoteAddr().String(), ":9503") {
				conn.Reset("script")
				cr.faultsActive = true
				cr.note("resetconn", rn.name)
				cr.res.stat("fault_conn_reset", 1)
			}
		}
		cr.pump(time.Millisecond, nil)
	case "stall":
		rn := cr.rep(op.A)
		for _, conn := range cr.w.Conns() {
			if conn.ServerNode() == rn.node && strings.HasSuffix(conn.RemoteAddr().String(), ":9503") {
				conn.HoldDirection(op.B%2 == 0)
				cr.faultsActive = true
				cr.note("stall", rn.name)
				cr.res.stat("fault_conn_stall", 1)
			}
		}
	case "diskerr":
		// the (B+1)-th data-file write (F: read) on replica A fails once: C = 0 EIO, 1 ENOSPC, 2 short write,
		// 3 = the call stalls for 2-60 simulated seconds and then succeeds (the replica "times out").
		// The replica answers that request with an error frame and stays alive.
		rn := cr.rep(op.A)
		if rn.up && rn.node != nil {
			kind := []simrt.DiskVerdict{simrt.DiskEIO, simrt.DiskENOSPC, simrt.DiskShort, simrt.DiskSlow}[int(op.C)%4]
			c.mu.Lock()
			if c.diskArms == nil {
				c.diskArms = map[string]*clDiskArm{}
			}
			c.diskArms[rn.name] = &clDiskArm{read: op.F, skip: int(op.B), kind: kind}
			c.mu.Unlock()
			cr.faultsActive = true
			cr.note("diskerr", fmt.Sprintf("%s-%v", rn.name, op.F))
			cr.res.stat("fault_disk_armed", 1)
		}
	case "httpfault":
		// the next B HTTP exchanges between the controller and replica A lose their
		// request (F=false) or their response after the handler ran (F=true)
		rn := cr.rep(op.A)
		cr.armHTTPFault(rn, int(op.B), op.F, int(op.C), op.D == 1) // D=1: the replica answers 500 at once instead of losing the call
		cr.faultsActive = true
		cr.note("httpfault", fmt.Sprintf("%s-%v", rn.name, op.F))
	case "hook":
		// arm a cooperative fault point on replica A: B selects the site, C the effect
		rn := cr.rep(op.A)
		cr.armHook(rn, int(op.B), int(op.C))
		cr.faultsActive = true
		cr.note("hook", fmt.Sprintf("%s-%d-%d", rn.name, op.B%4, op.C%2))
	case "agentfault":
		// the next C sync-agent child processes of kind B on replica A exit non-zero
		rn := cr.rep(op.A)
		if rn.agent != nil {
			kind := []string{"sync", "fold"}[int(op.B)%2]
			n := int(op.C)
			if n <= 0 {
				n = 1
			}
			rn.agent.mu.Lock()
			rn.agent.failNext[kind] += n
			rn.agent.mu.Unlock()
			cr.faultsActive = true
			cr.note("agentfault", rn.name+"-"+kind)
			cr.res.stat("fault_agent_"+kind, 1)
		}
	case "later":
		// a fault that fires B microseconds from now, i.e. inside whatever the
		// script does next (management calls are synchronous for the script)
		rn := cr.rep(op.A)
		kind := op.S
		cr.w.After(time.Duration(op.B)*time.Microsecond, fmt.Sprintf("later-%d", i), func() {
			if cr.stopped() || cr.settling {
				return
			}
			switch kind {
			case "kill":
				if rn.up {
					rn.scripted = true
					c.killReplica(rn, "script-later")
					cr.res.stat("fault_kill_inside_operation", 1)
				}
			case "resetconn":
				for _, conn := range cr.w.Conns() {
					if conn.ServerNode() == rn.node && strings.HasSuffix(conn.RemoteAddr().String(), ":9503") {
						conn.Reset("script-later")
						cr.res.stat("fault_conn_reset_inside_operation", 1)
					}
				}
			}
			cr.faultsActive = true
		})
		cr.note("later", rn.name+"-"+kind)
	case "settle":
		cr.settle()
	case "resize2":
		// two overlapping grow requests, the second one (sent C microseconds later) smaller than the first:
		// whichever order they take effect in, the volume ends at the larger size, and if the smaller one
		// comes second it is a shrink by then and must be refused without touching anything
		if !(cr.allRW() && cr.idleIO() && !cr.faultsActive && op.A > op.B && op.B > 0 && c.ctrl != nil) {
			cr.issueAdmin(i, Op{K: "resize", A: op.A})
			return
		}
		s2 := cr.m.size + op.B*blk
		before := map[string]bool{}
		for _, r := range c.ctrl.ListReplicas() {
			if r.Mode == types.RW {
				before[r.Address] = true
			}
		}
		sideDone := false
		var sideErr error
		cr.w.After(time.Duration(op.C)*time.Microsecond, fmt.Sprintf("side-resize-%d", i), func() {
			simrt.GoNamed(c.adminN, fmt.Sprintf("admin/side%d", i), func() {
				sideErr = cr.postResize(s2)
				sideDone = true
				cr.w.Kick()
			})
		})
		cr.issueAdmin(i, Op{K: "resize", A: op.A})
		if cr.stopped() {
			return
		}
		if !cr.pump(hangLimit, func() bool { return sideDone }) {
			cr.viol("C14", "management-request-hung", "the second of two overlapping resize requests did not return within %v", hangLimit)
			return
		}
		cr.pump(3*time.Second, nil)
		cr.res.stat("overlapping_resizes", 1)
		cr.note("resize2", okstr(sideErr))
		if cr.stopped() || cr.faultsActive || !cr.lockFree() {
			return
		}
		for _, r := range c.ctrl.ListReplicas() {
			if before[r.Address] && r.Mode != types.RW {
				cr.viol("C16", "refused-shrink-changed-membership", "two overlapping grow requests (to %d and, %dus later, to %d): afterwards %s is %s (second request: %v)", cr.m.size, op.C, s2, r.Address, r.Mode, sideErr)
				return
			}
			delete(before, r.Address)
		}
		for a := range before {
			cr.viol("C16", "refused-shrink-changed-membership", "two overlapping grow requests: afterwards %s is gone from the replica list (second request: %v)", a, sideErr)
			return
		}
	case "snap", "resize", "delsnap", "revert", "rmrep", "seterr", "addrep", "verify":
		cr.issueAdmin(i, op)
	}
}

// hangLimit bounds how long an initiator operation may take: several stacked
// timeouts (30s rpc, 40s ping, 120s black-holed HTTP without client timeout) are
// legal; beyond 900 simulated seconds it is reported as hung.
const hangLimit = 900 * time.Second

var hookSites = []string{"PanicAfterPrepareRebuild", "AddUpdateLUNMapTimeout", "AddPreloadTimeout", "PanicWhileSettingCheckpoint"}

// armHook: one-shot "buggify" point. Effect 0: the process crashes exactly there;
// effect 1: the goroutine pauses there for a few simulated seconds (foreground
// I/O and other requests keep flowing through the window).
func (cr *clRun) armHook(rn *repNode, site, effect int) {
	name := hookSites[site%len(hookSites)]
	if cr.hooks == nil {
		cr.hooks = map[string]int{}
		cr.c.hookFn = func(g *simrt.G, hook string, args ...interface{}) {
			if g == nil || g.Node == nil {
				return
			}
			key := g.Node.Name + "/" + hook
			cr.c.mu.Lock()
			eff, ok := cr.hooks[key]
			if ok {
				delete(cr.hooks, key)
			}
			cr.c.mu.Unlock()
			if !ok {
				return
			}
			cr.res.stat("hook_fired_"+hook, 1)
			if eff%2 == 0 {
				panic("injected crash at " + hook)
			}
			simrt.Sleep(time.Duration(2+cr.w.Rand(key)%8) * time.Second)
		}
	}
	cr.c.mu.Lock()
	cr.hooks[rn.name+"/"+name] = effect
	cr.c.mu.Unlock()
	cr.res.stat("hook_armed", 1)
}

func (cr *clRun) armHTTPFault(rn *repNode, n int, dropResp bool, skip int, errReply bool) {
	if n <= 0 {
		n = 1
	}
	if cr.httpDrops == nil {
		cr.httpDrops = map[string]*[4]int{}
		cr.c.httpFault = func(r *simrt.HTTPReqInfo) simrt.HTTPVerdict {
			var peer string
			switch {
			case r.From != nil && r.From.Name == "ctrl" && r.To != nil:
				peer = r.To.Name
			case r.To != nil && r.To.Name == "ctrl" && r.From != nil:
				peer = r.From.Name
			default:
				return simrt.HTTPDeliver
			}
			cr.c.mu.Lock()
			defer cr.c.mu.Unlock()
			d := cr.httpDrops[peer]
			if d == nil {
				return simrt.HTTPDeliver
			}
			if d[2] > 0 { // let the first exchanges through: the fault lands deeper inside a multi-call operation
				d[2]--
				return simrt.HTTPDeliver
			}
			if d[0] > 0 {
				d[0]--
				cr.res.stat("fault_http_request_dropped", 1)
				return simrt.HTTPDropReq
			}
			if d[1] > 0 {
				d[1]--
				cr.res.stat("fault_http_response_dropped", 1)
				return simrt.HTTPDropResp
			}
			if d[3] > 0 && r.From != nil && r.From.Name == "ctrl" {
				d[3]--
				cr.res.stat("fault_http_error_reply", 1)
				return simrt.HTTPFail
			}
			return simrt.HTTPDeliver
		}
	}
	cr.c.mu.Lock()
	d := cr.httpDrops[rn.name]
	if d == nil {
		d = &[4]int{}
		cr.httpDrops[rn.name] = d
	}
	d[2] = skip
	if errReply {
		d[3] += n
	} else if dropResp {
		d[1] += n
	} else {
		d[0] += n
	}
	cr.c.mu.Unlock()
}

func (cr *clRun) replaceIsSafe(rn *repNode) bool {
	c := cr.c
	if c.rf < 2 || c.ctrl == nil || !cr.lockFree() {
		return false
	}
	n := 0
	for _, r := range c.ctrl.ListReplicas() {
		if r.Address != rn.addr && r.Mode == types.RW {
			n++
		}
	}
	return n >= c.rf-1
}

func (cr *clRun) idle() bool {
	for _, o := range cr.ios {
		if !o.done {
			return false
		}
	}
	for _, a := range cr.admins {
		if !a.done {
			return false
		}
	}
	return true
}

func (cr *clRun) hung() {
	if f := os.Getenv("VERIF_DUMP_ON_HANG"); f != "" {
		buf := make([]byte, 8<<20)
		buf = buf[:runtime.Stack(buf, true)]
		os.WriteFile(f, buf, 0644)
	}
	for _, o := range cr.ios {
		if !o.done {
			wr, rd, holder, waiters := cr.c.ctrl.RWMutex.State()
			cr.viol(cr.s.Prop, "io-hung", "I/O %d (%s off=%d len=%d) issued at %v did not complete within 900 simulated seconds (now %v; controller lock writer=%v readers=%d holder=%q waiters=%d; pending events %d; acquired=%v)",
				o.idx, o.kind, o.off, o.n, o.issuedAt, cr.w.Now(), wr, rd, holder, waiters, cr.w.PendingEvents(), o.acquired)
			return
		}
	}
}

// allRW: every replica process that is up is listed RW and the volume is writable.
func (cr *clRun) allRW() bool {
	c := cr.c
	if c.ctrl == nil || !cr.lockFree() {
		return false
	}
	modes := map[string]types.Mode{}
	for _, r := range c.ctrl.ListReplicas() {
		modes[r.Address] = r.Mode
	}
	up, rw := 0, 0
	for _, rn := range c.reps {
		if rn.up {
			up++
			if modes[rn.addr] == types.RW {
				rw++
			}
		}
	}
	want := up
	if want > c.rf {
		want = c.rf // a spare replica process can never be more than a candidate
	}
	return want > 0 && rw == want && len(modes) == want
}

func (cr *clRun) lockFree() bool {
	writing, readers, _, waiters := cr.c.ctrl.RWMutex.State()
	return !writing && readers == 0 && waiters == 0
}

func (cr *clRun) issueIO(i int, op Op) {
	c := cr.c
	o := &ioOp{idx: i, kind: op.K, off: op.A * sect, n: op.B * sect, issuedAt: cr.w.Now()}
	if op.K == "sync" {
		o.off, o.n = 0, 0
	}
	cr.ios = append(cr.ios, o)
	rw, up := c.fe.up()
	if !up {
		// the iSCSI target is down: the initiator cannot even submit
		o.done, o.feDown, o.err = true, true, fmt.Errorf("frontend down")
		cr.note(op.K, "fedown")
		return
	}
	gname := fmt.Sprintf("ctrl/io%d", i)
	cr.c.mu.Lock()
	cr.byG[gname] = o
	cr.c.mu.Unlock()
	switch op.K {
	case "w":
		o.data = stampData(i, op.A, op.B)
		cr.m.addCand(i, o.off, o.n)
		cr.inflight[uint64(i+1)] = true
	case "r":
		o.buf = make([]byte, o.n)
	case "unmap":
		for s := o.off / sect; s < (o.off+o.n)/sect && s < int64(len(cr.m.wild)); s++ {
			cr.m.wild[s] = true
			for int64(len(cr.everWild)) <= s {
				cr.everWild = append(cr.everWild, false)
			}
			cr.everWild[s] = true
		}
	}
	simrt.GoNamed(c.ctrlN, gname, func() {
		switch o.kind {
		case "w":
			o.ret, o.err = rw.WriteAt(o.data, o.off)
		case "r":
			o.ret, o.err = rw.ReadAt(o.buf, o.off)
		case "sync":
			o.ret, o.err = rw.Sync()
		case "unmap":
			o.ret, o.err = rw.Unmap(o.off, o.n)
		}
		o.doneAt = cr.w.Now()
		o.done = true
		cr.w.Kick()
	})
	cr.pump(time.Duration(50+cr.w.Rand(fmt.Sprint("gap", i))%2000)*time.Microsecond, nil)
}

// ---------------------------------------------------------------- observation hooks

func (cr *clRun) onAcquire(lock interface{}, g *simrt.G, write bool) {
	if cr.c.ctrl == nil || lock != interface{}(&cr.c.ctrl.RWMutex) || !write || g == nil {
		return
	}
	cr.c.mu.Lock()
	o := cr.byG[g.Name]
	cr.c.mu.Unlock()
	if o == nil {
		if a := cr.curAdmin; a != nil && strings.HasPrefix(g.Name, "http:admin>") && strings.Contains(g.Name, fmt.Sprintf("#admin/op%d.", a.idx)) {
			// (the list under the request's LAST lock hold is the one its effect happens under)
			a.lastList = append([]types.Replica(nil), cr.c.ctrl.ListReplicas()...)
			if !a.acquired {
				a.acquired = true
				a.list = a.lastList
				a.checkpoint = cr.c.ctrl.Checkpoint
				a.ctrlSize = cr.c.ctrl.GetSize()
			}
		}
		return
	}
	if !o.acquired {
		o.acquired = true
		cr.acqCounter++
		o.acqSeq = cr.acqCounter
		o.list = append([]types.Replica(nil), cr.c.ctrl.ListReplicas()...)
		o.ro = cr.c.ctrl.ReadOnly
		o.rwCount = cr.c.ctrl.RWReplicaCount
		o.epochs = map[string]int{}
		for _, r := range o.list {
			o.epochs[r.Address] = cr.epoch[r.Address]
		}
	}
	cr.curOp = o
}

func (cr *clRun) onRelease(lock interface{}, g *simrt.G, write bool) {
	if cr.c.ctrl == nil || lock != interface{}(&cr.c.ctrl.RWMutex) || !write || g == nil {
		return
	}
	cr.c.mu.Lock()
	o := cr.byG[g.Name]
	cr.c.mu.Unlock()
	if o != nil && cr.curOp == o {
		cr.curOp = nil
	}
}

func (cr *clRun) addrOf(nodeName string) string {
	for _, rn := range cr.c.reps {
		if rn.name == nodeName {
			return rn.addr
		}
	}
	return nodeName
}

func (cr *clRun) onFrame(fr *obsFrame) {
	t := fr.f.Type
	known := false
	for _, rn := range cr.c.reps {
		if rn.name == fr.target {
			known = true
		}
	}
	if !known {
		return // a data connection of another volume (the clone's controller reading its own replica)
	}
	if fr.toServer {
		if t == tRead || t == tWrite || t == tSync || t == tUnmap {
			o := cr.curOp
			addr := cr.addrOf(fr.target)
			if o == nil {
				cr.viol("C18", "io-frame-outside-any-operation", "a type-%d frame went to %s while no initiator operation held the controller", t, fr.target)
				return
			}
			cr.frameMu.Lock() // frames are observed on the sending goroutines (one per replica connection)
			o.frames = append(o.frames, fr)
			cr.frameMu.Unlock()
			// C05/C18: a removed replica receives no further I/O
			if !cr.present[addr] && !containsAddr(o.list, addr) {
				// C05 ("it receives no further I/O") and C18 ("a removed replica receives no further calls") both own this
				cr.viol(cr.c05or18(), "io-sent-to-detached-replica", "op %d (%s): type-%d frame sent to %s which is not in the controller's replica list", o.idx, o.kind, t, addr)
			}
			if t == tRead {
				mode := modeOf(o.list, addr)
				if mode != types.RW {
					cr.viol("C04", "read-sent-to-non-rw-replica", "op %d: read frame sent to %s whose mode at the start of the operation was %q", o.idx, addr, mode)
				}
				cr.res.stat("read_frames", 1)
			}
			if t == tWrite {
				cr.res.stat("write_frames", 1)
			}
			if o.ro && (o.kind == "w" || o.kind == "sync" || o.kind == "unmap") {
				cr.viol("C03", "frame-sent-while-read-only", "op %d (%s) found the volume read-only but a type-%d frame was sent to %s", o.idx, o.kind, t, addr)
			}
		}
	} else if t == tResponse || t == tError || t == tEOF {
		if o := cr.curOp; o != nil {
			cr.frameMu.Lock()
			o.replies = append(o.replies, fr)
			cr.frameMu.Unlock()
		}
	}
}

func containsAddr(l []types.Replica, a string) bool {
	for _, r := range l {
		if r.Address == a {
			return true
		}
	}
	return false
}

func modeOf(l []types.Replica, a string) types.Mode {
	for _, r := range l {
		if r.Address == a {
			return r.Mode
		}
	}
	return ""
}

func countMode(l []types.Replica, m types.Mode) int {
	n := 0
	for _, r := range l {
		if r.Mode == m {
			n++
		}
	}
	return n
}

// ---------------------------------------------------------------- quiescent checks

func (cr *clRun) onQuiescent() {
	if cr.stopped() {
		return
	}
	c := cr.c
	c.reapExited()
	if c.ctrl == nil {
		return
	}
	// judge completed I/O in linearisation order (= order of controller-lock acquisition)
	var ready []*ioOp
	for _, o := range cr.ios {
		if o.done && !o.feDown && o.kind != "" {
			ready = append(ready, o)
		}
	}
	sort.SliceStable(ready, func(i, j int) bool { return ready[i].acqSeq < ready[j].acqSeq })
	for _, o := range ready {
		cr.judgeIO(o)
		o.kind = "" // judged
	}
	if !cr.lockFree() {
		return
	}
	list := c.ctrl.ListReplicas()
	// epochs / removal times
	now := map[string]bool{}
	for _, r := range list {
		now[r.Address] = true
		if !cr.present[r.Address] {
			cr.epoch[r.Address]++
			// which process of that replica the controller has just attached: a list entry speaks for
			// THAT incarnation, not for a later one started (perhaps on a new disk) under the same address
			// while the controller has not yet noticed that the attached one is dead
			if cr.attStarts == nil {
				cr.attStarts = map[string]int{}
			}
			for _, rn := range cr.c.reps {
				if rn.addr == r.Address {
					cr.attStarts[r.Address] = rn.starts
				}
			}
			if r.Mode == types.WO {
				cr.woSince[r.Address] = len(cr.ios)
				if cr.foldsAtWO == nil {
					cr.foldsAtWO = map[string]int64{}
				}
				statMu.Lock()
				cr.foldsAtWO[r.Address] = cr.res.Stats["fold_files"]
				statMu.Unlock()
			}
			cr.mutations++
			cr.res.stat("membership_add", 1)
			if r.Mode == types.RW {
				cr.electedAtColdStart(r.Address)
			}
		}
	}
	for a := range cr.present {
		if !now[a] {
			if cr.lastMode[a] == types.WO {
				// an interrupted rebuild: files half copied in place, chain metadata not yet switched
				if cr.abortedWO == nil {
					cr.abortedWO = map[string]bool{}
				}
				cr.abortedWO[a] = true
				cr.res.stat("rebuild_interrupted", 1)
			}
			cr.removedAt[a] = cr.w.Now()
			cr.mutations++
			cr.res.stat("membership_remove", 1)
		}
	}
	cr.present = now
	// promotions (WO -> RW within one membership epoch)
	promoted := ""
	for _, r := range list {
		if r.Mode == types.RW && cr.lastMode[r.Address] == types.WO {
			promoted = r.Address
			delete(cr.abortedWO, r.Address) // a completed rebuild replaces whatever the interrupted one left
			cr.res.stat("promotions", 1)
		}
	}
	cr.lastMode = map[string]types.Mode{}
	for _, r := range list {
		cr.lastMode[r.Address] = r.Mode
	}
	// C05: "marked failed and detached" - an entry in mode ERR is a transient state on the way
	// out (SetMode(ERR) -> StopMonitoring -> monitor goroutine -> RemoveReplicaNoLock). With the
	// controller lock free it may not linger beyond the hang limit; after settle not at all.
	if cr.errSince == nil {
		cr.errSince = map[string]time.Duration{}
	}
	for _, r := range list {
		if r.Mode != types.ERR {
			delete(cr.errSince, r.Address)
			continue
		}
		t0, ok := cr.errSince[r.Address]
		if !ok {
			cr.errSince[r.Address] = cr.w.Now()
		} else if cr.w.Now()-t0 > hangLimit {
			cr.viol("C05", "failed-replica-never-detached", "%s has been listed in mode ERR for %v with the controller lock free: a failed replica must be detached (%v)", r.Address, cr.w.Now()-t0, list)
			return
		}
	}
	for a := range cr.errSince {
		if !now[a] {
			delete(cr.errSince, a)
		}
	}
	// C18 invariants
	seen := map[string]bool{}
	wo := 0
	rwc := 0
	for _, r := range list {
		if seen[r.Address] {
			cr.viol("C18", "duplicate-address-in-list", "address %s appears twice in %v", r.Address, list)
			return
		}
		seen[r.Address] = true
		switch r.Mode {
		case types.WO:
			wo++
		case types.RW:
			rwc++
		}
	}
	if len(list) > c.rf {
		cr.viol("C18", "more-replicas-than-rf", "%d replicas listed with RF=%d: %v", len(list), c.rf, list)
		return
	}
	if wo > 1 {
		cr.viol(map[bool]string{true: "C07", false: "C18"}[cr.s.Prop == "C07"], "more-than-one-wo-replica", "%d replicas are WO: %v", wo, list)
		return
	}
	// C03: status agrees with the count
	wantRO := rwc < cr.quorum()
	if c.ctrl.RWReplicaCount != rwc && !(cr.s.Prop == "C03" && c.ctrl.ReadOnly != wantRO) {
		cr.viol("C18", "rw-count-mismatch", "controller reports RWReplicaCount=%d but %d entries are RW: %v", c.ctrl.RWReplicaCount, rwc, list)
		return
	}
	if c.ctrl.ReadOnly != wantRO {
		cr.viol("C03", "readonly-flag-stale", "ReadOnly=%v with %d RW replicas, RF=%d (quorum %d): %v", c.ctrl.ReadOnly, rwc, c.rf, cr.quorum(), list)
		return
	}
	cr.compares++
	cr.qpoints++
	if promoted != "" {
		cr.pendingPromo = promoted
		cr.lastPromoted = promoted
		cr.verifyReads = 2*len(list) + 1 // enough round-robin reads to be served by every RW replica
	}
	if cr.idleIO() && cr.curAdmin == nil { // (a management operation in flight changes the model only when it returns)
		if cr.pendingPromo != "" {
			cr.deepChecks("at promotion of "+cr.pendingPromo, cr.pendingPromo)
			cr.pendingPromo = ""
		} else if cr.qpoints%40 == 0 && !cr.idleWindow {
			cr.deepChecks("periodic", "")
		}
	}
}

// judgeIO applies the per-operation oracles once an initiator operation completed.
func (cr *clRun) judgeIO(o *ioOp) {
	mut := o.kind == "w" || o.kind == "sync" || o.kind == "unmap"
	outcome := "fail"
	if o.ok() {
		outcome = "ok"
	}
	cr.note(o.kind, outcome)
	if o.kind == "w" {
		delete(cr.inflight, uint64(o.idx+1))
	}
	if !o.acquired {
		cr.viol("C18", "io-completed-without-controller-lock", "op %d (%s) completed without ever taking the controller lock", o.idx, o.kind)
		return
	}
	rw := countMode(o.list, types.RW)
	// C01 (controller part): out-of-range I/O is rejected without touching a replica
	if o.kind == "w" || o.kind == "r" {
		if o.off < 0 || o.off+o.n > cr.m.size {
			if o.ok() {
				cr.viol("C01", "out-of-range-io-accepted", "op %d (%s) off=%d len=%d beyond size %d succeeded", o.idx, o.kind, o.off, o.n, cr.m.size)
			} else if len(o.frames) > 0 {
				cr.viol("C01", "out-of-range-io-reached-replica", "op %d (%s) off=%d len=%d beyond size %d sent %d frames", o.idx, o.kind, o.off, o.n, cr.m.size, len(o.frames))
			}
			return
		}
	}
	if mut {
		// C03: gate
		if rw < cr.quorum() {
			if o.ok() {
				cr.viol("C03", "write-accepted-below-quorum", "op %d (%s) succeeded although only %d replicas were RW when it took effect (RF=%d, quorum %d): %v", o.idx, o.kind, rw, cr.c.rf, cr.quorum(), o.list)
				return
			}
			if len(o.frames) > 0 {
				cr.viol("C03", "replica-touched-below-quorum", "op %d (%s) was refused below quorum (%d RW of RF=%d) but %d frames were sent: %v", o.idx, o.kind, rw, cr.c.rf, len(o.frames), o.list)
				return
			}
		}
	}
	// who was attached (non-ERR) when the op took effect
	var attached []string
	for _, r := range o.list {
		if r.Mode != types.ERR {
			attached = append(attached, r.Address)
		}
	}
	if o.kind == "w" && o.n > 0 && rw >= cr.quorum() && cr.lockFree() {
		// C18: the replicas the controller lists are the ones it sends I/O to. A
		// listed, attached replica that got no frame for this write and is still
		// listed afterwards exists only in the list (phantom entry).
		sent := map[string]bool{}
		for _, q := range o.frames {
			sent[cr.addrOf(q.target)] = true
		}
		cur := cr.c.ctrl.ListReplicas()
		if len(o.frames) > 0 {
			for _, a := range attached {
				m := modeOf(cur, a)
				if !sent[a] && (m == types.RW || m == types.WO) && cr.epoch[a] == o.epochs[a] {
					cr.viol("C18", "listed-replica-not-sent-write", "write %d went to %v but not to %s, which was listed %s before and is still listed %s after it", o.idx, sortedNames(sent), a, modeOf(o.list, a), m)
					return
				}
			}
		}
	}
	if o.kind == "w" && o.n > 0 {
		applied := cr.appliedBy(o)
		o.applied = applied
		na := 0
		for _, a := range attached {
			if applied[a] {
				na++
			}
		}
		cr.res.stat("write_judged", 1)
		if !o.ok() {
			o.coldStarts0 = cr.coldStarts
			for _, r := range o.list {
				if r.Mode == types.WO && applied[r.Address] {
					o.woAppliers = append(o.woAppliers, r.Address)
				}
			}
		}
		if o.ok() {
			if na*2 <= len(attached) {
				cr.viol("C02", "acknowledged-without-majority", "write %d acknowledged but only %d of %d attached replicas hold it (attached %v, applied %v)", o.idx, na, len(attached), attached, applied)
				return
			}
			anyRW := false
			for _, r := range o.list {
				if r.Mode == types.RW && applied[r.Address] {
					anyRW = true
				}
			}
			if !anyRW {
				cr.viol("C02", "acknowledged-without-rw-replica", "write %d acknowledged but no RW replica holds it: list %v applied %v", o.idx, o.list, applied)
				return
			}
			cr.m.ack(o.idx, o.off, o.n, cr.inflight)
			cr.mutations++
			o.acked, o.attachedN, o.coldStarts0, o.holdersN = true, len(attached), cr.coldStarts, na
			for _, r := range o.list {
				if r.Mode == types.RW && applied[r.Address] {
					o.rwHolders++
				}
			}
			// laggards must be detached by now
			cur := cr.c.ctrl.ListReplicas()
			if cr.lockFree() {
				for _, a := range attached {
					if !applied[a] && modeOf(cur, a) != "" && modeOf(cur, a) != types.ERR && cr.epoch[a] == o.epochs[a] {
						cr.viol(cr.c02or05(), "laggard-still-attached", "write %d acknowledged; %s did not apply it but is still listed as %s", o.idx, a, modeOf(cur, a))
						return
					}
				}
			}
		} else if rw >= cr.quorum() && !cr.faultsActive && na*2 > len(attached) && len(attached) > 0 && false {
			// (a failed write with a majority applied is legal only under faults; not judged)
		}
		// C05: a minority failure must not surface
		if !o.ok() && rw >= cr.quorum() && len(attached) > 0 && na*2 > len(attached) {
			anyRW := false
			for _, r := range o.list {
				if r.Mode == types.RW && applied[r.Address] {
					anyRW = true
				}
			}
			if anyRW && allAppliedReplied(o, applied, cr) {
				cr.viol("C05", "minority-failure-surfaced", "write %d failed (%v, n=%d) although %d of %d attached replicas applied and acknowledged it (list %v)", o.idx, o.err, o.ret, na, len(attached), o.list)
				return
			}
		}
	}
	if (o.kind == "sync" || o.kind == "unmap") && o.ok() && len(o.frames) > 0 && len(attached) > 0 {
		// C02 for flush/unmap: success needs a success reply, delivered to the
		// controller, from a strict majority of the replicas attached when it took
		// effect (the controller cannot have counted a reply it never received), and
		// every attached replica that did not answer is detached afterwards.
		reqSeq := map[string]uint32{}
		for _, q := range o.frames {
			reqSeq[q.conn.Key()] = q.f.Seq
		}
		okReply := map[string]bool{}
		for _, r := range o.replies {
			if seq, ok := reqSeq[r.conn.Key()]; ok && r.f.Type == tResponse && r.f.Seq == seq {
				okReply[cr.addrOf(r.target)] = true
			}
		}
		na := 0
		for _, a := range attached {
			if okReply[a] {
				na++
			}
		}
		cr.res.stat("flush_judged", 1)
		if na*2 <= len(attached) {
			cr.viol("C02", "flush-acknowledged-without-majority", "%s %d acknowledged but only %d of %d attached replicas answered it successfully (attached %v, answered %v)", o.kind, o.idx, na, len(attached), attached, sortedNames(okReply))
			return
		}
		if cr.lockFree() {
			cur := cr.c.ctrl.ListReplicas()
			for _, a := range attached {
				if !okReply[a] && modeOf(cur, a) != "" && modeOf(cur, a) != types.ERR && cr.epoch[a] == o.epochs[a] {
					cr.viol(cr.c02or05(), "laggard-still-attached", "%s %d acknowledged; %s did not answer it successfully but is still listed as %s", o.kind, o.idx, a, modeOf(cur, a))
					return
				}
			}
		}
	}
	if o.kind == "r" && o.n > 0 && len(o.frames) > 0 {
		// C04/C05: a replica that failed this read (request sent, no success reply
		// delivered for it) must be detached by the time the read returns
		reqSeq := map[string]uint32{}
		for _, q := range o.frames {
			reqSeq[q.conn.Key()] = q.f.Seq
		}
		answered := map[string]bool{}
		for _, r := range o.replies {
			if seq, ok := reqSeq[r.conn.Key()]; ok && r.f.Seq == seq && (r.f.Type == tResponse || r.f.Type == tEOF) {
				answered[cr.addrOf(r.target)] = true
			}
		}
		if cr.lockFree() {
			cur := cr.c.ctrl.ListReplicas()
			for _, q := range o.frames {
				a := cr.addrOf(q.target)
				if !answered[a] && (modeOf(cur, a) == types.RW || modeOf(cur, a) == types.WO) && cr.epoch[a] == o.epochs[a] {
					prop := "C04"
					if cr.s.Prop == "C05" {
						prop = "C05" // both statements require the failed replica to be detached
					}
					cr.viol(prop, "failed-reader-still-attached", "read %d: %s was asked and did not answer successfully, yet it is still listed as %s after the read returned (list before %v, after %v)", o.idx, a, modeOf(cur, a), o.list, cur)
					return
				}
			}
		}
	}
	if o.kind == "r" && o.n > 0 {
		if o.err == nil && int64(o.ret) != o.n {
			// "if no RW replica exists the read fails": Controller.ReadAt is an
			// io.ReaderAt, a short count must come with an error. (The initiator-side
			// glue treats n != len as a failure anyway, which is why this never shows
			// up as wrong data.)
			cr.viol("C04", "read-failed-without-error", "read %d off=%d len=%d returned n=%d with a nil error (list when it took effect: %v)", o.idx, o.off, o.n, o.ret, o.list)
			return
		}
		if o.ok() {
			cr.compares++
			if ok, why, bad := cr.m.check2(o.buf, o.off, false); !ok {
				clause := "read-returned-wrong-data"
				vprop := "C04"
				if o.idx >= 1000000 && len(o.frames) > 0 && cr.addrOf(o.frames[len(o.frames)-1].target) == cr.lastPromoted {
					// a verification read right after a promotion, served by the promoted
					// replica from its in-memory block map: that is C07's clause (the known-finding
					// classifiers below apply to it as to any other read: the verification reads can be
					// judged before the promotion's own directory comparison has run)
					clause, vprop = "promoted-replica-serves-wrong-data", "C07"
					why = fmt.Sprintf("served by the just promoted %s: %s", cr.lastPromoted, why)
				}
				for _, rn := range cr.c.reps {
					if w := cr.unalignedWriteWhileWO(rn.addr, bad); w != nil {
						clause += "/unaligned-write-during-rebuild"
						why += fmt.Sprintf(" [block %d was partially written by op %d (off=%d len=%d) while %s was WO]", bad/8, w.idx, w.off, w.n, rn.name)
						break
					}
				}
				if w := cr.woMajorityLoss(bad); w != nil && !strings.Contains(clause, "/") {
					clause += "/write-majority-included-rebuilding-replica"
					why += cr.d20Note(w)
				}
				if w := cr.electedHalfRebuilt(bad); w != nil && !strings.Contains(clause, "/") {
					clause += "/elected-after-interrupted-rebuild"
					why += cr.d25Note(w)
				}
				if w := cr.ackedByMinorityOfRF(bad); w != nil && !strings.Contains(clause, "/") {
					clause += "/write-held-by-minority-of-rf"
					why += cr.d26Note(w)
				}
				if w, f, e := cr.electedCountingFailedWrite(bad); w != nil && !strings.Contains(clause, "/") {
					clause += "/elected-replica-counted-failed-write"
					why += cr.d31Note(w, f, e)
				}
				if !strings.Contains(clause, "/") {
					for _, rn := range cr.c.reps {
						if rv := cr.revertSkipped(rn.addr, bad); rv != nil {
							clause += "/rw-replica-not-reverted"
							why += fmt.Sprintf(" [%s is listed RW after a successful volume revert but the revert call was sent only to %v]", rn.name, sortedNames(rv.sent))
							break
						}
					}
				}
				if !strings.Contains(clause, "/") {
					for _, rn := range cr.c.reps {
						if w := cr.punchedThenRebuilt(rn.addr, bad); w != nil {
							clause += "/punched-snapshot-not-resynced"
							why += cr.d28Note(w, rn.name)
							break
						}
					}
				}
				cr.viol(vprop, clause, "read %d off=%d len=%d: %s", o.idx, o.off, o.n, why)
				return
			}
			if rw == 0 {
				cr.viol("C04", "read-served-without-rw-replica", "read %d succeeded with no RW replica in %v", o.idx, o.list)
				return
			}
		} else if rw == 0 && len(o.frames) > 0 {
			cr.viol("C04", "read-frames-without-rw-replica", "read %d: frames sent with no RW replica", o.idx)
		}
	}
}

// allAppliedReplied: every replica counted as "applied" also got its success
// reply back to the controller before the operation returned (otherwise the
// controller legitimately saw a failure).
func allAppliedReplied(o *ioOp, applied map[string]bool, cr *clRun) bool {
	// a success reply counts only if it answers this operation's own request frame
	// on that connection (ping replies travel on the same connection)
	reqSeq := map[string]uint32{}
	for _, q := range o.frames {
		reqSeq[q.conn.Key()] = q.f.Seq
	}
	okReply := map[string]bool{}
	for _, r := range o.replies {
		if seq, ok := reqSeq[r.conn.Key()]; ok && r.f.Type == tResponse && r.f.Seq == seq {
			okReply[cr.addrOf(r.target)] = true
		}
	}
	n, tot := 0, 0
	for _, r := range o.list {
		if r.Mode == types.ERR {
			continue
		}
		tot++
		if applied[r.Address] && okReply[r.Address] {
			n++
		}
	}
	return n*2 > tot
}

// unalignedWriteWhileWO recognises known finding D12: sector s of replica addr is
// wrong, and some write that touched s's 4 KiB block without covering s was
// applied while addr was WO (rebuilding) - the replica did a read-modify-write
// over its incomplete chain. Returns that write, or nil.
func (cr *clRun) unalignedWriteWhileWO(addr string, s int64) *ioOp {
	if s < 0 {
		return nil
	}
	b0, b1 := (s/8)*8*sect, (s/8+1)*8*sect
	for _, o := range cr.ios {
		if o.data == nil || !o.acquired || o.n == 0 || modeOf(o.list, addr) != types.WO {
			continue
		}
		if o.off < b1 && o.off+o.n > b0 && !(o.off <= s*sect && o.off+o.n >= (s+1)*sect) {
			return o
		}
	}
	return nil
}

// woMajorityLoss recognises known finding D20: the acknowledged value of sector
// s comes from a write whose majority needed a rebuilding (WO) replica - at most
// half of the attached replicas were RW holders - and a cold-start election has
// happened since. A WO replica's acknowledgement counts for the write quorum,
// but it does not advance its revision counter and an aborted rebuild discards
// its data, so at the election nobody may represent that write.
func (cr *clRun) woMajorityLoss(s int64) *ioOp {
	if s < 0 || s >= int64(len(cr.m.val)) {
		return nil
	}
	idx := int(cr.m.val[s]>>32) - 1
	for _, o := range cr.ios {
		if o.idx == idx && o.acked && o.rwHolders*2 <= o.attachedN && cr.coldStarts > o.coldStarts0 {
			return o
		}
		if o.idx == idx && os.Getenv("VERIF_DEBUG_D20") != "" {
			fmt.Fprintf(os.Stderr, "D20? op %d kind=%s acked=%v rwHolders=%d attached=%d cold0=%d cold=%d list=%v\n", o.idx, o.kind, o.acked, o.rwHolders, o.attachedN, o.coldStarts0, cr.coldStarts, o.list)
		}
	}
	return nil
}

// unackedWriteOnlyOnWO recognises known finding D23: sector s differs between
// two RW replicas, and a write that covered s's 4 KiB block was reported as
// FAILED to the initiator while a rebuilding (WO) replica had applied it, and a
// cold-start election has happened since. The WO replica's aborted rebuild is
// "reset" (sync.checkAndResetFailedRebuild) to an ordinary closed replica with
// its old revision counter (WO writes do not advance it); if it wins the tie at
// the election, the others find equal revision counters and equal chain names
// and skip the file sync altogether (sync.isRevisionCountAndChainSame), so they
// are promoted although they differ from their source in that block.
func (cr *clRun) unackedWriteOnlyOnWO(s int64) *ioOp {
	if s < 0 {
		return nil
	}
	b0, b1 := (s/8)*8*sect, (s/8+1)*8*sect
	for _, o := range cr.ios {
		if os.Getenv("VERIF_DEBUG_D23") != "" {
			fmt.Fprintf(os.Stderr, "D23? op %d kind=%s acked=%v wo=%v cold0=%d cold=%d off=%d n=%d list=%v\n", o.idx, o.kind, o.acked, o.woAppliers, o.coldStarts0, cr.coldStarts, o.off, o.n, o.list)
		}
		if o.data == nil || o.acked || len(o.woAppliers) == 0 || cr.coldStarts <= o.coldStarts0 {
			continue
		}
		if o.off < b1 && o.off+o.n > b0 {
			return o
		}
	}
	return nil
}

// electedHalfRebuilt recognises known finding D25: the acknowledged value of
// sector s predates a cold-start election that picked a replica whose last
// rebuild had been interrupted. A rebuild copies the source's snapshot files IN
// PLACE over the rebuilding replica's same-named files and switches the chain
// metadata last; interrupted in between, the replica's own copy of recent
// writes (in the snapshot of its old head, just overwritten) is gone while the
// source's intermediate snapshots are not linked in yet. On restart the replica
// "resets" the failed rebuild and registers as healthy with its full revision
// counter, so it can win the election, and everybody else is rebuilt from it.
func (cr *clRun) electedHalfRebuilt(s int64) *ioOp {
	if s < 0 || s >= int64(len(cr.m.val)) || len(cr.halfRebuiltElections) == 0 {
		return nil
	}
	idx := int(cr.m.val[s]>>32) - 1
	last := cr.halfRebuiltElections[len(cr.halfRebuiltElections)-1]
	for _, o := range cr.ios {
		if o.idx == idx && o.acked && o.coldStarts0 < last {
			return o
		}
	}
	return nil
}

// ackedByMinorityOfRF recognises known finding D26: the acknowledged value of
// sector s comes from a write that a majority of the replicas ATTACHED at that
// moment had applied, but no more than half of the configured replication
// factor (e.g. RF=5 with 3 attached, one of which fails that write: 2 holders),
// and a cold-start election has happened since. The election needs a majority
// of RF to register, and such a majority can consist of non-holders only.
func (cr *clRun) ackedByMinorityOfRF(s int64) *ioOp {
	if s < 0 || s >= int64(len(cr.m.val)) {
		return nil
	}
	idx := int(cr.m.val[s]>>32) - 1
	for _, o := range cr.ios {
		if o.idx == idx && o.acked && o.holdersN*2 <= cr.c.rf && cr.coldStarts > o.coldStarts0 {
			return o
		}
	}
	return nil
}

// punchedThenRebuilt recognises known finding D28: sector s of replica addr lost an acknowledged
// value although addr had held it. addr (a replica that has been through a rebuild, so reclamation
// is on) later applied a write o into the same 4 KiB block: the merged block went to its head and
// the old copy was punched out of the automatic snapshot below. Then addr left and was rebuilt
// again: its head is discarded, and the file sync SKIPS every snapshot whose per-disk revision
// counter equals the source's (sync.isRevisionCountSame) - the punched snapshot is not re-copied,
// and the block reads as zeros.
func (cr *clRun) punchedThenRebuilt(addr string, s int64) *ioOp {
	if s < 0 || s >= int64(len(cr.m.val)) {
		return nil
	}
	b0, b1 := (s/8)*8*sect, (s/8+1)*8*sect
	cur := int(cr.m.val[s]>>32) - 1 // the write whose value is expected there (-1: never written)
	for _, o := range cr.ios {
		if o.data == nil || o.n == 0 || o.idx <= cur {
			continue
		}
		// addr applied the write - or, for a write that was never acknowledged (failed, or still in flight
		// when addr's process went away, so that it was never judged), was at least SENT it: the replica may
		// have applied and punched before it died, and its head - the only evidence - is discarded by the rebuild
		got := o.applied[addr]
		if !got && !o.acked {
			for _, q := range o.frames {
				if q.toServer && q.f.Type == tWrite && cr.addrOf(q.target) == addr {
					got = true
				}
			}
		}
		if got && o.off < b1 && o.off+o.n > b0 && cr.epoch[addr] > o.epochs[addr] {
			return o
		}
	}
	return nil
}

func (cr *clRun) d28Note(w *ioOp, addr string) string {
	return fmt.Sprintf(" [%s had applied write %d (off=%d len=%d, acknowledged=%v) into this block, which punches the block's old copy out of its automatic snapshot; it has been rebuilt since and the punched snapshot was not copied again]", addr, w.idx, w.off, w.n, w.acked)
}

// electedCountingFailedWrite recognises known finding D31: the acknowledged value of sector s comes from a
// write W that a later cold-start election lost by picking a replica E that did not hold W but had, earlier,
// applied a write F that FAILED towards the initiator. A replica counts every write it applies, whatever the
// controller told the initiator, so E's revision counter is as high as (or higher than) that of the replicas
// holding W: the counters tie (the first to register wins) or E even leads, and everybody is rebuilt from E.
func (cr *clRun) electedCountingFailedWrite(s int64) (*ioOp, *ioOp, string) {
	if s < 0 || s >= int64(len(cr.m.val)) {
		return nil, nil, ""
	}
	idx := int(cr.m.val[s]>>32) - 1
	for _, w := range cr.ios {
		if w.idx != idx || !w.acked {
			continue
		}
		for e := w.coldStarts0; e < cr.coldStarts && e < len(cr.electedAddrs); e++ {
			el := cr.electedAddrs[e]
			if w.applied[el] {
				continue
			}
			for _, f := range cr.ios {
				if f.data != nil && !f.acked && f.done && f.applied[el] && f.coldStarts0 <= e && f.idx != w.idx {
					return w, f, el
				}
			}
			// general form: a holder of W had registered with the same revision count as the elected
			// non-holder - however the counters came to be equal, the election could not tell them apart
			if e < len(cr.electionTies) {
				for h := range cr.electionTies[e] {
					if w.applied[h] {
						return w, nil, el
					}
				}
			}
		}
	}
	return nil, nil, ""
}

func (cr *clRun) d31Note(w, f *ioOp, el string) string {
	if f == nil {
		return fmt.Sprintf(" [write %d was acknowledged; a later cold-start election picked %s, which does not hold it, while a replica that holds it had registered with the SAME revision count]", w.idx, el)
	}
	return fmt.Sprintf(" [write %d was acknowledged; a later cold-start election picked %s, which does not hold it but had applied write %d, which failed towards the initiator, and counted it]", w.idx, el, f.idx)
}

// revertSkipped recognises known finding D32: replica addr is listed RW after a volume revert that
// reported success, but the controller never sent it the revert call - Controller.Revert picks the
// replicas to revert BEFORE it takes the controller lock (clientsAndSnapshot), and a replica that is
// added, rebuilt and promoted in between serves as RW with the state from before the revert.
func (cr *clRun) revertSkipped(addr string, s int64) *revertRec {
	if s < 0 || s >= int64(len(cr.m.val)) {
		return nil
	}
	for i := len(cr.reverts) - 1; i >= 0; i-- {
		rv := cr.reverts[i]
		if rv.lost || rv.sent == nil || int(s) >= len(rv.post) || int(s) >= len(rv.pre) {
			continue
		}
		if rv.holders[addr] && !rv.sent[addr] && rv.pre[s] != rv.post[s] && cr.m.val[s] == rv.post[s] {
			return rv
		}
	}
	return nil
}

func (cr *clRun) d26Note(w *ioOp) string {
	return fmt.Sprintf(" [write %d was acknowledged with %d holder(s) among %d attached replicas, RF=%d; a cold start followed]", w.idx, w.holdersN, w.attachedN, cr.c.rf)
}

func (cr *clRun) d25Note(w *ioOp) string {
	return fmt.Sprintf(" [write %d was acknowledged before cold-start election #%v picked a replica whose last rebuild had been interrupted]", w.idx, cr.halfRebuiltElections)
}

// revertRec: a successful volume revert, who took part, and the register before/after.
type revertRec struct {
	sent      map[string]bool // replicas the controller sent the revert call to
	holders   map[string]bool
	pre, post []uint64
	preWild   []bool
	lost      bool
}

// failedWriteRetained is the general form of D23: at sector s one of two replicas holds the
// value of a write that was reported as FAILED to the initiator (a replica applied it fully or,
// after a short write, partly, and was detached for it). Failed writes do not advance the
// revision counter, so when the replicas meet again with equal counters and equal snapshot
// names the file sync is skipped and the difference stays.
func (cr *clRun) failedWriteRetained(s int64, a, b []byte) *ioOp {
	if s < 0 || int64(len(a)) < (s+1)*sect || int64(len(b)) < (s+1)*sect {
		return nil
	}
	wa, wb := binary.LittleEndian.Uint64(a[s*sect:]), binary.LittleEndian.Uint64(b[s*sect:])
	for _, o := range cr.ios {
		if o.data == nil || o.acked || !o.done || o.n == 0 || !(o.off <= s*sect && s*sect < o.off+o.n) {
			continue
		}
		if w := stampWord(o.idx, s); wa == w || wb == w {
			return o
		}
	}
	return nil
}

func (cr *clRun) d20Note(w *ioOp) string {
	return fmt.Sprintf(" [write %d was acknowledged with %d RW holder(s) of %d attached replicas, the rest of its majority was rebuilding; a cold start followed]", w.idx, w.rwHolders, w.attachedN)
}

// idleImages / checkIdleImages (C11, cluster): over a pure advance of time with no
// initiator or management operation in flight, the only thing that touches a
// replica's files is background work (the snapshot cleaner's coalesce + remove,
// hole punching). Neither may change what an RW replica's live image or a
// retained user-created snapshot reads.
type idleImage struct {
	epoch int
	live  []byte
	snaps map[string][]byte
}

func (cr *clRun) idleImages(advMs int64) map[string]*idleImage {
	if advMs < 2000 || cr.stopped() || cr.c.ctrl == nil || !cr.idleIO() || cr.curAdmin != nil || !cr.lockFree() {
		return nil
	}
	// whatever is already wrong is reported for what it is, before the window opens;
	// inside the window the periodic deep check stands back so that a change is
	// attributed to the background work that caused it
	cr.deepChecks("before an idle period", "")
	if cr.stopped() {
		return nil
	}
	out := map[string]*idleImage{}
	for _, r := range cr.c.ctrl.ListReplicas() {
		if r.Mode != types.RW {
			continue
		}
		for _, rn := range cr.c.reps {
			if !cr.serves(rn, r.Address) {
				continue
			}
			img, err := cr.replicaImage(rn)
			if err != nil {
				continue
			}
			ii := &idleImage{epoch: cr.epoch[rn.addr]*1000 + rn.inc, live: img, snaps: map[string][]byte{}}
			for _, s := range cr.snaps {
				if s.deleted || s.lost {
					continue
				}
				if b, _, err := cr.snapshotImage(rn, s.disk); err == nil {
					ii.snaps[s.name] = b
				}
			}
			out[rn.addr] = ii
		}
	}
	return out
}

func (cr *clRun) checkIdleImages(pre map[string]*idleImage) {
	if pre == nil || cr.stopped() || cr.c.ctrl == nil || !cr.lockFree() {
		return
	}
	for _, r := range cr.c.ctrl.ListReplicas() {
		ii := pre[r.Address]
		if ii == nil || r.Mode != types.RW {
			continue
		}
		for _, rn := range cr.c.reps {
			if !cr.serves(rn, r.Address) || cr.epoch[rn.addr]*1000+rn.inc != ii.epoch {
				continue
			}
			img, err := cr.replicaImage(rn)
			if err != nil {
				cr.viol("C11", "background-work-left-replica-unreadable", "replica %s (RW, untouched by any request) cannot be read after an idle period: %v", rn.name, err)
				return
			}
			cr.compares++
			cr.res.stat("idle_image_checks", 1)
			if !bytes.Equal(img, ii.live) {
				cr.viol("C11", "background-deletion-changed-live-data", "replica %s: live image changed over an idle period (no request in flight): %s", rn.name, describeDiff(img, ii.live))
				return
			}
			for _, s := range cr.snaps {
				old, ok := ii.snaps[s.name]
				if !ok || s.deleted || s.lost {
					continue
				}
				b, _, err := cr.snapshotImage(rn, s.disk)
				if err != nil {
					cr.viol("C11", "background-deletion-lost-user-snapshot", "replica %s: user snapshot %s unreadable after an idle period: %v", rn.name, s.name, err)
					return
				}
				if !bytes.Equal(b, old) {
					cr.viol("C11", "background-deletion-changed-user-snapshot", "replica %s: user snapshot %s changed over an idle period: %s", rn.name, s.name, describeDiff(b, old))
					return
				}
			}
		}
	}
}

// c02or05: "a replica that failed an operation is detached" is stated by both C02
// and C05; in a C05 run the clause is reported under C05.
func (cr *clRun) c02or05() string {
	if cr.s.Prop == "C05" {
		return "C05"
	}
	return "C02"
}

// appliedBy inspects every replica directory: does it hold this write's stamp?
func (cr *clRun) appliedBy(o *ioOp) map[string]bool {
	out := map[string]bool{}
	for _, rn := range cr.c.reps {
		img, err := cr.replicaImage(rn)
		if err != nil {
			continue
		}
		all := true
		for s := o.off / sect; s < (o.off+o.n)/sect; s++ {
			if int64(len(img)) < (s+1)*sect || binary.LittleEndian.Uint64(img[s*sect:]) != stampWord(o.idx, s) {
				all = false
				break
			}
		}
		out[rn.addr] = all
	}
	return out
}

// replicaImage reads a replica's directory with the independent extent walker.
func (cr *clRun) replicaImage(rn *repNode) ([]byte, error) {
	var vm volMeta
	if err := readJSON(filepath.Join(rn.dir, "volume.meta"), &vm); err != nil {
		return nil, err
	}
	chain, _, err := diskChain(rn.dir, vm.Head)
	if err != nil {
		return nil, err
	}
	return imageOf(rn.dir, chain, vm.Size)
}

// ---------------------------------------------------------------- settle + final oracles

func (cr *clRun) settle() {
	if cr.stopped() {
		return
	}
	c := cr.c
	// stop all faults
	for _, rn := range c.reps {
		if rn.node != nil {
			cr.w.SetLink(c.ctrlN, rn.node, false)
		}
	}
	for _, conn := range cr.w.Conns() {
		conn.ReleaseHeld()
	}
	c.httpFault = nil
	cr.httpDrops = nil
	cr.c.mu.Lock()
	cr.hooks = map[string]int{}
	cr.c.diskArms = nil
	cr.c.mu.Unlock()
	cr.faultsActive = false
	cr.settling = true // pending `later` faults are dropped: faults have stopped
	started := 0
	for _, rn := range c.reps {
		if rn.up {
			started++
		}
	}
	for _, rn := range c.reps {
		if !rn.up && started < c.rf {
			c.startReplica(rn)
			started++
		}
	}
	if !cr.pump(hangLimit, cr.idle) {
		cr.hung()
		return
	}
	ok := cr.pump(900*time.Second, func() bool { return cr.allRW() && cr.idle() })
	cr.note("settle", fmt.Sprint(ok))
	cr.res.stat("settled_"+fmt.Sprint(ok), 1)
	if cr.stopped() {
		return
	}
	cr.settled = ok
	list := c.ctrl.ListReplicas()
	rw := countMode(list, types.RW)
	if !ok && cr.lockFree() {
		for _, r := range list {
			if r.Mode == types.ERR {
				cr.viol("C05", "failed-replica-never-detached", "900 simulated seconds after all faults stopped %s is still listed in mode ERR: a failed replica must be detached, and it cannot come back while it is listed (%v)", r.Address, list)
				return
			}
		}
	}
	// C03 bounded liveness: with a quorum and no faults the next write succeeds
	for attempt := 0; attempt < 3 && rw >= cr.quorum() && cr.lockFree(); attempt++ {
		sig0 := cr.membershipSig()
		i := len(cr.s.Ops) + 1000 + len(cr.ios)
		cr.issueIO(i, Op{K: "w", A: 0, B: 8})
		if !cr.pump(120*time.Second, cr.idle) {
			cr.hung()
			return
		}
		o := cr.ios[len(cr.ios)-1]
		if o.ok() || o.feDown {
			break
		}
		if sig0 == cr.membershipSig() {
			cr.viol("C03", "write-refused-with-quorum-after-settle", "after faults stopped and membership settled (%v, %d RW, RF=%d) a write failed: %v", list, rw, c.rf, o.err)
			return
		}
		// membership had NOT settled: a replica process was still reacting to a fault from before (it exits a
		// second after a failed add, say) and left while the write was under way. Wait for the membership to
		// settle again and try once more.
		cr.res.stat("liveness_write_retried_membership_changed", 1)
		if !cr.pump(900*time.Second, func() bool { return cr.allRW() && cr.idle() }) || cr.stopped() {
			break
		}
		list = c.ctrl.ListReplicas()
		rw = countMode(list, types.RW)
	}
	if cr.stopped() {
		return
	}
	// C02 consequence: every RW replica holds every acknowledged write; C04: a full read agrees
	cr.pump(10*time.Millisecond, nil)
	if !cr.lockFree() {
		return
	}
	cr.deepChecks("after settle", "")
	if cr.stopped() {
		return
	}
	list = c.ctrl.ListReplicas()
	for _, r := range list {
		if r.Mode != types.RW {
			continue
		}
		for _, rn := range c.reps {
			if !cr.serves(rn, r.Address) {
				continue
			}
			img, err := cr.replicaImage(rn)
			if err != nil {
				cr.viol("C02", "rw-replica-unreadable", "replica %s is listed RW but its directory cannot be read: %v", rn.name, err)
				return
			}
			cr.compares++
			if ok, why, bad := cr.m.check2(img[:cr.m.size], 0, false); !ok {
				clause := "rw-replica-misses-acknowledged-write"
				if w := cr.unalignedWriteWhileWO(rn.addr, bad); w != nil {
					clause += "/unaligned-write-during-rebuild"
					why += fmt.Sprintf(" [block %d was partially written by op %d (off=%d len=%d) while %s was WO]", bad/8, w.idx, w.off, w.n, rn.name)
				} else if w := cr.woMajorityLoss(bad); w != nil {
					clause += "/write-majority-included-rebuilding-replica"
					why += cr.d20Note(w)
				} else if w := cr.electedHalfRebuilt(bad); w != nil {
					clause += "/elected-after-interrupted-rebuild"
					why += cr.d25Note(w)
				} else if w := cr.ackedByMinorityOfRF(bad); w != nil {
					clause += "/write-held-by-minority-of-rf"
					why += cr.d26Note(w)
				} else if w, f, e := cr.electedCountingFailedWrite(bad); w != nil {
					clause += "/elected-replica-counted-failed-write"
					why += cr.d31Note(w, f, e)
				} else if rv := cr.revertSkipped(rn.addr, bad); rv != nil {
					clause += "/rw-replica-not-reverted"
					why += fmt.Sprintf(" [%s is listed RW after a successful volume revert but the revert call was sent only to %v]", rn.name, sortedNames(rv.sent))
				} else if w := cr.punchedThenRebuilt(rn.addr, bad); w != nil {
					clause += "/punched-snapshot-not-resynced"
					why += cr.d28Note(w, rn.name)
				}
				cr.viol("C02", clause, "replica %s is listed RW but its image disagrees with the acknowledged writes: %s", rn.name, why)
				return
			}
		}
	}
	if rw > 0 {
		i := len(cr.s.Ops) + 2000 + len(cr.ios)
		cr.issueIO(i, Op{K: "r", A: 0, B: cr.m.size / sect})
		if !cr.pump(120*time.Second, cr.idle) {
			cr.hung()
		}
	}
	cr.pump(time.Millisecond, nil)
}

func (cr *clRun) c05or18() string {
	if cr.s.Prop == "C18" {
		return "C18"
	}
	return "C05"
}

// serves: rn's running process is the one the controller attached under addr.
func (cr *clRun) serves(rn *repNode, addr string) bool {
	if rn.addr != addr || !rn.up {
		return false
	}
	st, ok := cr.attStarts[addr]
	return !ok || st == rn.starts
}

// membershipSig: the controller's list plus, per replica process, how often it has been started and
// whether it is running - equal before and after an operation means nobody joined, left, died or came back.
func (cr *clRun) membershipSig() string {
	s := fmt.Sprint(cr.c.ctrl.ListReplicas())
	for _, rn := range cr.c.reps {
		exited := rn.node != nil && rn.node.Exited
		s += fmt.Sprintf("|%s:%d:%v:%v", rn.name, rn.starts, rn.up, exited)
	}
	return s
}

var _ = sort.Strings
var _ = bytes.Equal

// ---------------------------------------------------------------- generator

func (clustersim) Generate(rng *Rand, prop, tier string) *Script {
	s := &Script{Engine: "clustersim", Prop: prop, Cfg: map[string]int64{}}
	rf := []int{1, 2, 3, 3, 3, 3, 4, 5}[rng.Intn(8)]
	if prop == "C02" || prop == "C05" {
		rf = []int{2, 3, 3, 3, 4, 5}[rng.Intn(6)]
	}
	if prop == "C03" {
		rf = []int{1, 1, 2, 2, 3, 3, 3, 4, 5}[rng.Intn(9)] // small replication factors: every single change crosses the quorum
	}
	nb := int64(rng.Range(4, 16))
	s.Cfg["rf"] = int64(rf)
	s.Cfg["blocks"] = nb
	s.Cfg["perm"] = int64(rng.Intn(2))
	if rng.Bool(25) {
		s.Cfg["jitter"] = int64([]int{20, 100, 400}[rng.Intn(3)]) // microseconds of simulated time before lock requests
	}
	if rng.Bool(25) {
		s.Cfg["seljit"] = int64(rng.Range(1, 5)) // nanoseconds a receiver may dawdle after a channel receive (simrt.SelectJitter)
	}
	if rng.Bool(30) {
		s.Cfg["punchlag"] = int64([]int{50, 500, 5000, 70000}[rng.Intn(4)]) // lagging hole puncher (ms per hole, upper bound)
	}
	if rng.Bool(30) {
		s.Cfg["rpcto"] = int64(rng.Range(3, 20))
	}
	// Spare replica processes (more replica pods than RF) do not exist in an orderly deployment; a
	// replacement pod that comes up under a new address while the old replica is still listed does.
	// One spare in some of the membership-oriented runs: it is started by the first restart that names it.
	if (prop == "C18" && rng.Bool(35)) || (prop == "C03" && rng.Bool(10)) {
		s.Cfg["spares"] = 1
	}
	if rng.Bool(25) {
		// sub-4KiB I/O: exposes known finding D12 whenever it meets a rebuild, which ends
		// the run; most runs therefore stay block-aligned
		s.Cfg["unaligned"] = 1
	}
	nreps := rf + int(s.Cfg["spares"])
	secs := nb * 8
	add := func(o Op) { s.Ops = append(s.Ops, o) }
	add(Op{K: "boot", A: 180})
	busy := map[int64]bool{} // blocks with a write in flight since the last wait
	genIO := func() {
		k := "w"
		switch x := rng.Intn(100); {
		case x < 55:
			k = "w"
		case x < 88:
			k = "r"
		case x < 95:
			k = "sync"
		default:
			k = "unmap"
		}
		if prop == "C04" && rng.Bool(40) {
			k = "r"
		}
		if (prop == "C02" || prop == "C05") && rng.Bool(15) {
			k = "sync" // the flush path has its own majority count
		}
		op := Op{K: k}
		if k == "sync" {
			add(op)
			return
		}
		b := int64(rng.Intn(int(nb)))
		n := int64(rng.Range(1, 2))
		if b+n > nb {
			n = nb - b
		}
		op.A, op.B = b*8, n*8
		if s.Cfg["unaligned"] != 0 && rng.Bool(30) { // unaligned
			op.A += int64(rng.Intn(8))
			op.B = int64(rng.Range(1, 8))
			if op.A+op.B > secs {
				op.B = secs - op.A
			}
		}
		if rng.Bool(3) { // out of range (C01, controller part)
			op.A = secs - int64(rng.Intn(4))
			op.B = int64(rng.Range(4, 12))
		}
		if k == "unmap" {
			op.B = 8
		}
		if k == "w" || k == "unmap" {
			// concurrent mutating I/O never overlaps (per 4 KiB block), as with a real initiator
			for blkNo := op.A / 8; blkNo <= (op.A+op.B-1)/8; blkNo++ {
				if busy[blkNo] {
					return
				}
			}
			for blkNo := op.A / 8; blkNo <= (op.A+op.B-1)/8; blkNo++ {
				busy[blkNo] = true
			}
		}
		add(op)
		return
		if k == "unmap" {
			op.B = 8
		}
		add(op)
	}
	wait := func() {
		add(Op{K: "wait"})
		busy = map[int64]bool{}
	}
	var faultOn func(r int64)
	fault := func() { faultOn(int64(rng.Intn(nreps))) }
	faultOn = func(r int64) {
		switch x := rng.Intn(100); {
		case x < 30:
			add(Op{K: "kill", A: r})
		case x < 46:
			add(Op{K: "resetconn", A: r})
		case x < 58:
			add(Op{K: "stall", A: r, B: int64(rng.Intn(2))})
		case x < 68:
			add(Op{K: "part", A: r})
		case x < 80:
			// a data-file write (or read) on that replica fails: error reply, process stays up
			add(Op{K: "diskerr", A: r, B: int64(rng.Intn(2)), C: int64(rng.Intn(4)), F: rng.Bool(30)})
			genIO()
		case x < 88:
			add(Op{K: "httpfault", A: r, B: int64(rng.Range(1, 3)), F: rng.Bool(60), C: int64(rng.Intn(12))})
		case x < 94:
			add(Op{K: "hook", A: r, B: int64(rng.Intn(4)), C: int64(rng.Intn(2))})
		default:
			add(Op{K: "kill", A: r})
			add(Op{K: "kill", A: int64(rng.Intn(nreps))})
		}
	}
	if rng.Bool(40) || prop == "C11" {
		s.Cfg["retention"] = int64(rng.Range(1, 3))
	}
	snapID := int64(0)
	admin := func() {
		r := int64(rng.Intn(nreps))
		x := rng.Intn(100)
		switch prop {
		case "C13":
			if x < 70 {
				x = 0
			}
		case "C16":
			if x < 60 {
				x = 45
			}
		case "C11":
			if x < 40 {
				x = 0
			} else if x < 75 {
				x = 60
			}
		case "C18":
			if x < 30 {
				x = 80 // a replica is removed through the API while the others stay: membership vs. who gets I/O
			}
		}
		switch {
		case x < 40:
			snapID++
			add(Op{K: "snap", A: snapID})
		case x < 55:
			d := int64(rng.Range(1, 4))
			if rng.Bool(25) {
				d = -int64(rng.Intn(3))
			}
			if d > 1 && rng.Bool(40) {
				add(Op{K: "resize2", A: d, B: int64(rng.Range(1, int(d)-1)), C: int64(rng.Intn(1500))})
			} else {
				add(Op{K: "resize", A: d})
			}
			if d > 0 {
				nb += d
				secs = nb * 8
			}
		case x < 70:
			add(Op{K: "delsnap", A: int64(rng.Intn(8))})
		case x < 78:
			add(Op{K: "revert", A: int64(rng.Intn(8))})
		case x < 86:
			add(Op{K: "rmrep", A: r})
			if prop == "C18" {
				for i, k := 0, rng.Range(1, 3); i < k; i++ {
					genIO()
				}
				add(Op{K: "wait"})
			}
		case x < 92:
			add(Op{K: "seterr", A: r})
		case x < 96:
			add(Op{K: "addrep", A: r})
		default:
			add(Op{K: "verify", A: r})
		}
	}
	nph := rng.Range(2, 7)
	if tier == "thorough" && rng.Bool(30) {
		nph = rng.Range(6, 14)
	}
	for p := 0; p < nph; p++ {
		x := rng.Intn(100)
		if (prop == "C13" || prop == "C16" || prop == "C11") && rng.Bool(50) {
			x = 95
		}
		pWindow, pDiskerr, pAgent := 30, 20, 8
		if prop == "C07" {
			pWindow, pDiskerr, pAgent = 60, 35, 20
		}
		if rf >= 2 && rng.Bool(pWindow) {
			// rebuild window: faults and I/O while a replica is WO
			victim := int64(rng.Intn(nreps))
			if rng.Bool(40) {
				snapID++
				add(Op{K: "snap", A: snapID})
			}
			for i, k := 0, rng.Range(0, 2); i < k; i++ {
				genIO()
			}
			wait()
			add(Op{K: "kill", A: victim})
			add(Op{K: "adv", A: int64(rng.Range(100, 3000))})
			genIO()
			wait()
			// C07 runs: half of the windows concentrate on one of the two situations in which a rebuilt replica can
			// end up different although every call "succeeded": (1) the WO replica fails ONE foreground write and stays
			// alive (disk full), (2) foreground writes land while the reloaded replica merges its block maps
			focus := 0
			if prop == "C07" {
				focus = rng.Intn(4)
			}
			genW := func() {
				b := int64(rng.Intn(int(nb)))
				add(Op{K: "w", A: b * 8, B: 8})
			}
			if focus == 2 {
				add(Op{K: "hook", A: victim, B: 1, C: 1}) // pause inside UpdateLUNMap
			} else if rng.Bool(50) {
				add(Op{K: "hook", A: victim, B: int64(1 + rng.Intn(2)), C: 1}) // pause inside UpdateLUNMap / preload
			} else if rng.Bool(50) {
				// lose one management call somewhere inside the add/rebuild conversation
				add(Op{K: "httpfault", A: victim, B: 1, F: rng.Bool(50), C: int64(rng.Intn(14))})
			}
			earlyVerify := false
			if rng.Bool(30) {
				// the replica comes back with an empty disk (no checkpoint, no snapshots of its own) ...
				add(Op{K: "replace", A: victim})
				// ... and somebody asks the controller to verify/promote it while the copy is still running
				earlyVerify = rng.Bool(40)
			} else {
				add(Op{K: "restart", A: victim})
				earlyVerify = rng.Bool(5)
			}
			if rng.Bool(pAgent) {
				// one of the file transfers of this rebuild fails (the ssync child on the source exits non-zero
				// after the first chunk): armed on every possible source
				for r := 0; r < nreps; r++ {
					if int64(r) != victim {
						add(Op{K: "agentfault", A: int64(r), B: 0, C: 1})
					}
				}
			}
			switch focus {
			case 1:
				add(Op{K: "adv", A: int64(rng.Range(20, 700))})
				add(Op{K: "diskerr", A: victim, B: 0, C: 1, F: false}) // ENOSPC: the replica answers with an error and lives on
				genW()
				wait()
			case 2:
				add(Op{K: "adv", A: int64(rng.Range(800, 1800))})
				for i, k := 0, rng.Range(2, 4); i < k; i++ {
					genW()
					add(Op{K: "adv", A: int64(rng.Range(50, 500))})
				}
			}
			add(Op{K: "adv", A: int64(rng.Range(5, 2500))})
			for i, k := 0, rng.Range(1, 5); i < k; i++ {
				if earlyVerify && rng.Bool(50) {
					add(Op{K: "verify", A: victim})
					earlyVerify = false
				}
				if rng.Bool(pDiskerr) {
					// a transient disk error on the rebuilding replica (or another one) for the next write
					dv := victim
					if rng.Bool(30) {
						dv = int64(rng.Intn(nreps))
					}
					add(Op{K: "diskerr", A: dv, B: 0, C: int64(rng.Intn(4)), F: false})
				}
				genIO()
				if rng.Bool(35) {
					if rng.Bool(50) {
						faultOn(victim)
					} else {
						fault()
					}
				}
				if rng.Bool(50) {
					add(Op{K: "adv", A: int64(rng.Range(1, 1500))})
				}
			}
			wait()
			add(Op{K: "boot", A: 120})
			for i, k := 0, rng.Range(1, 3); i < k; i++ {
				genIO()
			}
			wait()
			continue
		}
		pStalled := 4
		if prop == "C04" || prop == "C03" || prop == "C18" || prop == "C05" {
			pStalled = 14
		}
		if rf >= 2 && rng.Bool(pStalled) {
			// a replica whose monitor cannot react quickly (a ping is in flight and its reply is held) fails
			// one call of a management operation with an error reply: the operation marks it ERR and it
			// stays listed until the ping times out - the window in which a stale reader list or a stale RW
			// count would show
			for i, k := 0, rng.Range(0, 2); i < k; i++ {
				genIO()
			}
			wait()
			r := int64(rng.Intn(nreps))
			add(Op{K: "stall", A: r, B: int64(rng.Intn(2))})
			add(Op{K: "adv", A: int64(rng.Range(2500, 9000))})
			d := int64(1)
			if rng.Bool(25) {
				d = 0
			}
			add(Op{K: "httpfault", A: r, B: 1, F: rng.Bool(50), C: int64([]int{1, 1, 1, 0, 2, 3}[rng.Intn(6)]), D: d})
			if rng.Bool(60) {
				snapID++
				add(Op{K: "snap", A: snapID})
			} else {
				admin()
			}
			for i, k := 0, rng.Range(2, 6); i < k; i++ {
				genIO()
				if rng.Bool(40) {
					add(Op{K: "adv", A: int64(rng.Range(100, 9000))})
				}
			}
			wait()
			continue
		}
		if prop == "C07" && rng.Bool(40) {
			x = 70
		}
		if prop == "C03" && rng.Bool(15) {
			x = 87 // cold start: the status is re-evaluated along the start conversation
		}
		switch {
		case x >= 90: // management operations racing with I/O
			for i, k := 0, rng.Range(0, 3); i < k; i++ {
				genIO()
			}
			if rng.Bool(30) {
				// a replica fails while the management request is being processed
				add(Op{K: "later", A: int64(rng.Intn(nreps)), B: int64(rng.Range(20, 3000)), S: []string{"kill", "resetconn"}[rng.Intn(2)]})
			} else if rng.Bool(30) {
				// one of the per-replica calls of the management operation is lost (request or response) or answered with an error
				add(Op{K: "httpfault", A: int64(rng.Intn(nreps)), B: 1, F: rng.Bool(50), C: int64(rng.Intn(4)), D: int64(rng.Intn(2))})
			}
			admin()
			if rng.Bool(30) {
				fault()
			}
			for i, k := 0, rng.Range(0, 2); i < k; i++ {
				genIO()
			}
			if rng.Bool(50) {
				admin()
			}
			wait()
			if s.Cfg["retention"] != 0 && (rng.Bool(40) || (prop == "C11" && rng.Bool(60))) {
				if rng.Bool(40) || (prop == "C11" && rng.Bool(40)) {
					add(Op{K: "agentfault", A: int64(rng.Intn(nreps)), B: 1, C: int64(rng.Range(1, 2))}) // sfold fails
				}
				add(Op{K: "adv", A: int64(rng.Range(61000, 200000))}) // let the snapshot cleaner tick
			}
		case x >= 85: // everybody dies, comes back in some order (cold start)
			for r := 0; r < nreps; r++ {
				add(Op{K: "kill", A: int64(r)})
			}
			add(Op{K: "adv", A: int64(rng.Range(100, 5000))})
			if rng.Bool(40) {
				// one call of the start conversation (register / start signal / open / revision counter / mode) is
				// lost or answered with an error
				add(Op{K: "httpfault", A: int64(rng.Intn(nreps)), B: 1, F: rng.Bool(50), C: int64(rng.Intn(16)), D: int64(rng.Intn(2))})
			}
			if rng.Bool(30) {
				add(Op{K: "httpfault", A: int64(rng.Intn(nreps)), B: 1, C: int64(rng.Range(4, 16)), D: 1})
			}
			for _, r := range rng.Perm(nreps) {
				add(Op{K: "restart", A: int64(r)})
				add(Op{K: "adv", A: int64(rng.Range(1, 8000))})
			}
			add(Op{K: "boot", A: 240})
			genIO()
			wait()
		case x < 30: // plain burst
			for i, k := 0, rng.Range(1, 5); i < k; i++ {
				genIO()
			}
			wait()
		case x < 65: // fault inside in-flight I/O
			for i, k := 0, rng.Range(1, 3); i < k; i++ {
				genIO()
			}
			if rng.Bool(50) {
				add(Op{K: "adv", A: int64(rng.Intn(3))})
			}
			fault()
			for i, k := 0, rng.Range(0, 3); i < k; i++ {
				genIO()
			}
			wait()
		case x < 84: // bring somebody back, keep writing while it rebuilds
			r := int64(rng.Intn(nreps))
			if rng.Bool(70) {
				add(Op{K: "restart", A: r})
			} else {
				add(Op{K: "replace", A: r})
			}
			if rng.Bool(40) {
				add(Op{K: "heal", A: int64(rng.Intn(nreps))})
			}
			for i, k := 0, rng.Range(1, 6); i < k; i++ {
				add(Op{K: "adv", A: int64(rng.Range(1, 4000))})
				genIO()
				if rng.Bool(30) {
					wait()
				}
			}
			wait()
		default: // idle time: only the ping monitors can notice a fault
			fault()
			add(Op{K: "adv", A: int64(rng.Range(1000, 90000))})
			genIO()
			wait()
		}
	}
	return s
}
