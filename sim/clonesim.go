package sim

import (
	"bytes"
	"fmt"
	"net/http"
	"os"
	"path/filepath"
	"strings"
	"testing"
	"testing/synctest"
	"time"

	japp "github.com/openebs/jiva/app"
	"github.com/openebs/jiva/backend/dynamic"
	"github.com/openebs/jiva/backend/remote"
	"github.com/openebs/jiva/controller"
	crest "github.com/openebs/jiva/controller/rest"
	"github.com/openebs/jiva/rpc"
	jsync "github.com/openebs/jiva/sync"
	"github.com/openebs/jiva/types"
	"github.com/urfave/cli"
	"verif/simrt"
)

// clonesim (C19): a source volume (controller + RF replicas) with a history of
// writes and snapshots, plus a second volume: a new controller (RF=1) and a
// replica started as `--type clone --cloneIP <source controller> --snapName S`.
// The real startReplica clone sequencing, sync.Task.CloneReplica and the new
// controller's clone-status polling run; the copy goes through the in-simulator
// sync agents; the script kills/restarts the clone or the source meanwhile.

type clonesim struct{}

func (clonesim) Name() string { return "clonesim" }

func init() {
	register(clonesim{})
	propEngines["C19"] = append(propEngines["C19"], "clonesim")
}

func (clonesim) Generate(rng *Rand, prop, tier string) *Script {
	s := &Script{Engine: "clonesim", Prop: prop, Cfg: map[string]int64{}}
	s.Cfg["rf"] = int64(rng.Range(1, 3))
	nb := int64(rng.Range(4, 12))
	s.Cfg["blocks"] = nb
	s.Cfg["order"] = int64(rng.Intn(2)) // 0: clone replica first, 1: new controller first
	add := func(o Op) { s.Ops = append(s.Ops, o) }
	add(Op{K: "boot", A: 120})
	nsn := rng.Range(1, 4)
	sn := int64(0)
	w := func() {
		b := int64(rng.Intn(int(nb)))
		n := int64(rng.Range(1, 2))
		if b+n > nb {
			n = nb - b
		}
		add(Op{K: "w", A: b * 8, B: n * 8})
	}
	for i := 0; i < nsn; i++ {
		for j, k := 0, rng.Range(1, 4); j < k; j++ {
			w()
		}
		add(Op{K: "wait"})
		sn++
		add(Op{K: "snap", A: sn})
	}
	for j, k := 0, rng.Range(0, 3); j < k; j++ {
		w()
	}
	add(Op{K: "wait"})
	degraded := s.Cfg["rf"] >= 2 && rng.Bool(35)
	victim := int64(rng.Intn(int(s.Cfg["rf"])))
	if degraded {
		// the source volume is degraded when the clone looks for a replica to copy from: one
		// replica is being rebuilt (possibly on a fresh disk), and the healthy ones go away
		// around the moment the clone starts
		add(Op{K: "kill", A: victim})
		add(Op{K: "adv", A: int64(rng.Range(100, 3000))})
		if rng.Bool(50) {
			// the rebuild is held for a few seconds after PrepareRebuild: the replica stays WO (listed, chain
			// switched, data not copied) long enough for the clone to look while the healthy ones are gone
			add(Op{K: "hook", A: victim, B: 0, C: 1})
		}
		if rng.Bool(50) {
			add(Op{K: "replace", A: victim})
		} else {
			add(Op{K: "restart", A: victim})
		}
		add(Op{K: "adv", A: int64(rng.Range(1, 2500))})
	}
	// F: clone the automatic snapshot that the running rebuild took on the rebuilding replica
	// (it is in that replica's chain before the data below it has been copied)
	add(Op{K: "clone", A: int64(rng.Range(1, int(sn))), F: degraded && rng.Bool(50)})
	if degraded {
		add(Op{K: "adv", A: int64(rng.Intn(3000))})
		for r := int64(0); r < s.Cfg["rf"]; r++ {
			if r != victim {
				add(Op{K: "kill", A: r})
			}
		}
		add(Op{K: "adv", A: int64(rng.Range(500, 9000))})
	}
	// while the clone runs: more writes to the source, time, faults
	for j, k := 0, rng.Range(0, 6); j < k; j++ {
		switch x := rng.Intn(100); {
		case x < 35:
			w()
		case x < 60:
			add(Op{K: "adv", A: int64(rng.Range(1, 3000))})
		case x < 72:
			add(Op{K: "killclone"})
		case x < 84:
			add(Op{K: "restartclone"})
		case x < 92:
			add(Op{K: "kill", A: int64(rng.Intn(int(s.Cfg["rf"])))})
		default:
			add(Op{K: "restart", A: int64(rng.Intn(int(s.Cfg["rf"])))})
		}
	}
	add(Op{K: "wait"})
	add(Op{K: "cloneboot", A: int64(rng.Range(60, 400))})
	return s
}

type cloneRun struct {
	clRun
	ctrl2N   *simrt.Node
	ctrl2    *controller.Controller
	fe2      *simFrontend
	clone    *repNode
	snapName string
	refImg   []byte // image of the snapshot on an RW source replica when the clone started (clone of an automatic snapshot)
	sawRW    bool
}

func (clonesim) Run(t *testing.T, s *Script) *Result {
	res := &Result{Stats: map[string]int64{}}
	dir := newRunDir()
	defer os.RemoveAll(dir)
	infra := inBubble(t, func() {
		cr := &cloneRun{}
		cr.clRun = clRun{t: t, s: s, res: res, byG: map[string]*ioOp{}, inflight: map[uint64]bool{}, epoch: map[string]int{},
			present: map[string]bool{}, removedAt: map[string]time.Duration{}, woSince: map[string]int{}}
		cr.run(dir)
	})
	if infra != "" && res.Infra == "" {
		res.Infra = infra
	}
	return res
}

func (cr *cloneRun) cviol(clause, format string, a ...interface{}) {
	cr.viol("C19", clause, format, a...)
}

func (cr *cloneRun) run(dir string) {
	s := cr.s
	w := simrt.NewWorld(s.Seed, synctest.Wait)
	w.StrictLocks = os.Getenv("VERIF_LOOSE_LOCKS") == ""
	defer w.Close()
	cr.w = w
	w.TraceOn = os.Getenv("VERIF_TRACE") != ""
	if os.Getenv("VERIF_LOG") != "" {
		w.Log = func(f string, a ...interface{}) {
			fmt.Fprintf(os.Stderr, "[sim %v] "+f+"\n", append([]interface{}{w.Now()}, a...)...)
		}
	}
	rf := int(s.Cfg["rf"])
	size := s.Cfg["blocks"] * blk
	types.ShouldPunchHoles = false
	types.MaxChainLength = 0
	jsync.SnapshotRetentionCount = 10
	types.RPCReadTimeout, types.RPCWriteTimeout = 30*time.Second, 30*time.Second
	rpc.SetRPCTimeout()
	cr.m = newVolModel(size)
	c := newCluster(w, cr.res, dir, rf, size, rf)
	cr.c = c
	c.onFrame = cr.onFrame
	w.OnAcquire = cr.onAcquire
	w.OnRelease = cr.onRelease
	c.startController()
	for _, rn := range c.reps {
		c.startReplica(rn)
	}
	for i, op := range s.Ops {
		if cr.stopped() {
			break
		}
		cr.step = i
		switch op.K {
		case "clone":
			cr.startClone(op)
		case "killclone":
			if cr.clone != nil && cr.clone.up {
				cr.clone.scripted = true
				c.killReplica(cr.clone, "script")
				cr.res.stat("fault_kill_clone", 1)
				cr.note("killclone", "ok")
			}
		case "restartclone":
			if cr.clone != nil && !cr.clone.up {
				cr.startCloneReplica()
				cr.note("restartclone", "ok")
			}
		case "cloneboot":
			cr.awaitClone(time.Duration(op.A) * time.Second)
		default:
			cr.exec(i, op)
		}
		cr.watchClone()
	}
	cr.res.SimNanos = int64(w.Now())
	cr.res.Steps = w.Steps
	for k, v := range w.Probes() {
		cr.res.Stats[k] += int64(v)
	}
	cr.res.Shape = hashStrings(cr.shape)
	cr.res.Nontrivial = cr.res.Stats["clone_started"] > 0 && cr.compares > 0
	cr.res.TraceHash = hashTrace(w.Trace)
}

func (cr *cloneRun) startClone(op Op) {
	c := cr.c
	if len(cr.snaps) == 0 {
		return
	}
	cr.snapName = cr.snaps[int(op.A-1)%len(cr.snaps)].name
	cr.refImg = nil
	if op.F && c.ctrl != nil {
		// the latest snapshot in the chain of a replica that is WO right now, if every RW replica has it too
		list := c.ctrl.ListReplicas()
		for _, r := range list {
			if r.Mode != types.WO {
				continue
			}
			for _, rn := range c.reps {
				if rn.addr != r.Address || !rn.up {
					continue
				}
				var vm volMeta
				if readJSON(filepath.Join(rn.dir, "volume.meta"), &vm) != nil || !strings.HasPrefix(vm.Parent, "volume-snap-") {
					continue
				}
				name := strings.TrimSuffix(strings.TrimPrefix(vm.Parent, "volume-snap-"), ".img")
				for _, r2 := range list {
					if r2.Mode != types.RW {
						continue
					}
					for _, src := range c.reps {
						if src.addr == r2.Address && src.up {
							if img, _, err := cr.snapshotImage(src, vm.Parent); err == nil {
								cr.snapName, cr.refImg = name, img
								cr.res.stat("clone_of_rebuild_snapshot", 1)
							}
						}
					}
				}
			}
		}
	}
	cr.clone = &repNode{idx: 100, name: "clone", ip: "10.0.1.2"}
	cr.clone.addr = "tcp://10.0.1.2:9502"
	cr.clone.base = filepath.Join(c.root, "clone")
	cr.clone.dir = filepath.Join(cr.clone.base, "inc-0")
	os.MkdirAll(cr.clone.dir, 0700)
	c.extra = append(c.extra, cr.clone)
	cr.res.stat("clone_started", 1)
	if cr.s.Cfg["order"] == 0 {
		cr.startCloneReplica()
		cr.pump(time.Duration(500)*time.Millisecond, nil)
		cr.startController2()
	} else {
		cr.startController2()
		cr.pump(time.Duration(500)*time.Millisecond, nil)
		cr.startCloneReplica()
	}
	if cr.refImg != nil {
		cr.note("clone", "rebuild-snapshot")
	} else {
		cr.note("clone", cr.snapName)
	}
}

func (cr *cloneRun) startController2() {
	c := cr.c
	cr.ctrl2N = c.w.AddNode("ctrl2", "10.0.1.1")
	cr.fe2 = &simFrontend{}
	ready := false
	simrt.GoNamed(cr.ctrl2N, "ctrl2/main", func() {
		ctl := controller.NewController(
			controller.WithName("vol2"),
			controller.WithBackend(dynamic.New(map[string]types.BackendFactory{"tcp": remote.New()})),
			controller.WithFrontend(cr.fe2, "10.0.1.1"),
			controller.WithRF(1))
		cr.ctrl2 = ctl
		h := http.Handler(crest.NewRouter(crest.NewServer(ctl)))
		ready = true
		c.w.Kick()
		simrt.ListenAndServe("10.0.1.1:9501", h)
	})
	c.w.Pump(func() bool { return ready && c.w.HasHTTP("10.0.1.1:9501") }, c.w.Now()+time.Second, nil)
}

func (cr *cloneRun) startCloneReplica() {
	c := cr.c
	rn := cr.clone
	rn.node = c.w.AddNode(rn.name, rn.ip)
	rn.up = true
	rn.scripted = false
	rn.starts++
	rn.agent = newAgentStub(c, rn)
	c.w.ServeOn(rn.node, rn.ip+":9504", rn.agent)
	dir := rn.dir
	snap := cr.snapName
	simrt.GoNamed(rn.node, fmt.Sprintf("clone.%d/main", rn.starts), func() {
		app := cli.NewApp()
		app.Writer = devNull{}
		app.ErrWriter = devNull{}
		app.Commands = []cli.Command{japp.ReplicaCmd()}
		app.Run([]string{"jiva", "replica", "--frontendIP", "10.0.1.1", "--listen", rn.ip + ":9502", "--type", "clone",
			"--cloneIP", "10.0.0.1", "--snapName", snap, "--size", fmt.Sprint(c.size), "--sync-agent=false", "--logtofile=false", dir})
	})
}

// reapClone: kubelet for the clone replica.
func (cr *cloneRun) reapClone() {
	rn := cr.clone
	if rn == nil || !rn.up || rn.node == nil || !rn.node.Dead() {
		return
	}
	cr.res.stat("clone_self_exit", 1)
	cr.c.retire(rn)
	at := cr.w.Now() + 5*time.Second
	cr.w.Post(at, fmt.Sprintf("kubelet-restart-clone-%d", rn.inc), func() {
		if !rn.up && !rn.scripted {
			cr.startCloneReplica()
		}
	})
}

// watchClone evaluates the clone invariants at the current quiescent point.
func (cr *cloneRun) watchClone() {
	if cr.stopped() || cr.clone == nil || cr.ctrl2 == nil {
		return
	}
	cr.reapClone()
	wr, rd, _, _ := cr.ctrl2.RWMutex.State()
	if wr || rd > 0 {
		return
	}
	for _, r := range cr.ctrl2.ListReplicas() {
		if r.Address == cr.clone.addr && r.Mode == types.RW {
			cr.judgeCloneRW()
			return
		}
	}
}

func (cr *cloneRun) sourceSnapshotImage() ([]byte, int64, bool) {
	c := cr.c
	disk := "volume-snap-" + cr.snapName + ".img"
	if c.ctrl == nil {
		return nil, 0, false
	}
	for _, r := range c.ctrl.ListReplicas() {
		if r.Mode != types.RW {
			continue
		}
		for _, rn := range c.reps {
			if rn.addr == r.Address && rn.up {
				img, _, err := cr.snapshotImage(rn, disk)
				if err != nil {
					continue
				}
				_, metas, _ := diskChain(rn.dir, disk)
				return img, metas[disk].RevisionCounter, true
			}
		}
	}
	return nil, 0, false
}

func (cr *cloneRun) judgeCloneRW() {
	if cr.sawRW {
		return
	}
	cr.sawRW = true
	cr.res.stat("clone_became_rw", 1)
	var vm volMeta
	if err := readJSON(filepath.Join(cr.clone.dir, "volume.meta"), &vm); err != nil {
		cr.cviol("clone-rw-but-unreadable", "the new controller lists the clone RW but its volume.meta is unreadable: %v", err)
		return
	}
	if vm.CloneStatus != "completed" {
		cr.cviol("clone-rw-before-completed", "the new controller lists the clone RW while its clone status is %q", vm.CloneStatus)
		return
	}
	img, err := cr.replicaImage(cr.clone)
	if err != nil {
		cr.cviol("clone-rw-but-unreadable", "clone directory unreadable: %v", err)
		return
	}
	cr.compares++
	// against the register at snapshot time
	for _, s := range cr.snaps {
		if s.name == cr.snapName && s.idle {
			if ok, why, _ := checkWords(img, s.image, s.wild); !ok {
				cr.cviol("clone-differs-from-snapshot", "the clone's volume differs from snapshot %s as taken: %s", cr.snapName, why)
				return
			}
		}
	}
	if cr.refImg != nil {
		n := len(cr.refImg)
		if len(img) < n {
			n = len(img)
		}
		if !bytes.Equal(img[:n], cr.refImg[:n]) {
			cr.cviol("clone-differs-from-source-snapshot", "the clone's volume differs from snapshot %s as an RW replica of the source held it when the clone started: %s", cr.snapName, describeDiff(img[:n], cr.refImg[:n]))
			return
		}
	}
	if src, rev, ok := cr.sourceSnapshotImage(); ok {
		n := len(src)
		if len(img) < n {
			n = len(img)
		}
		if !bytes.Equal(img[:n], src[:n]) {
			cr.cviol("clone-differs-from-source-snapshot", "the clone's volume differs from snapshot %s on the source: %s", cr.snapName, describeDiff(img[:n], src[:n]))
			return
		}
		crev, _ := readRevisionFile(cr.clone.dir)
		if crev != rev {
			cr.cviol("clone-revision-counter-differs", "clone revision counter %d, snapshot %s recorded %d on the source", crev, cr.snapName, rev)
			return
		}
	}
	// and through the new volume's frontend
	if rw, up := cr.fe2.up(); up {
		buf := make([]byte, len(img))
		var rerr error
		done := false
		simrt.GoNamed(cr.ctrl2N, "ctrl2/read", func() { _, rerr = rw.ReadAt(buf, 0); done = true; cr.w.Kick() })
		cr.w.Pump(func() bool { return done }, cr.w.Now()+120*time.Second, nil)
		if done && rerr == nil && !bytes.Equal(buf, img) {
			cr.cviol("clone-read-differs-from-disk", "read through the new controller differs from the clone's on-disk image: %s", describeDiff(buf, img))
		}
	}
}

// awaitClone: after faults stop, the clone either completes and is served, or reports an error and is not served.
func (cr *cloneRun) awaitClone(d time.Duration) {
	if cr.clone == nil {
		return
	}
	c := cr.c
	for _, rn := range c.reps {
		if !rn.up {
			c.startReplica(rn)
		}
	}
	if !cr.clone.up {
		cr.startCloneReplica()
	}
	deadline := cr.w.Now() + d
	for cr.w.Now() < deadline && !cr.stopped() && !cr.sawRW {
		cr.pump(500*time.Millisecond, nil)
		cr.watchClone()
	}
	cr.note("cloneboot", fmt.Sprint(cr.sawRW))
	if cr.stopped() || cr.sawRW {
		return
	}
	// not served: then it must not be listed RW (already known) and a status "error" is fine; partial data is never served
	var vm volMeta
	readJSON(filepath.Join(cr.clone.dir, "volume.meta"), &vm)
	cr.res.stat("clone_not_served_status_"+strings.ReplaceAll(vm.CloneStatus, " ", "_"), 1)
}
