package sim

import (
	"bytes"
	"encoding/binary"
	"encoding/json"
	"fmt"
	"net/http"
	"net/http/httptest"
	"os"
	"path/filepath"
	"sort"
	"strings"
	"sync"
	"time"

	japp "github.com/openebs/jiva/app"
	"github.com/openebs/jiva/backend/dynamic"
	"github.com/openebs/jiva/backend/remote"
	"github.com/openebs/jiva/controller"
	crest "github.com/openebs/jiva/controller/rest"
	"github.com/openebs/jiva/types"
	"github.com/openebs/sparse-tools/sparse"
	"github.com/urfave/cli"
	"verif/simrt"
)

// clustersim infrastructure: one controller (real controller.Controller, real
// REST router, real remote backend factory and rpc client) and N replica
// processes (the real `jiva replica` CLI action: REST + rpc servers,
// AutoConfigureReplica, sync.Task.AddReplica, snapshot cleaner) on a simulated
// network, each on its own real ext4 directory. Stubs: the iSCSI frontend (the
// workload generator plays the initiator), the sync-agent REST + ssync/sfold
// child processes (in-simulator copier with the same contract), process wiring
// of `jiva controller` (startController's ~40 lines are replicated here so that
// the harness can hold the *Controller for lock-point sampling).

// ---------------------------------------------------------------- fake frontend

type simFrontend struct {
	mu        sync.Mutex
	rw        types.IOs
	ctrl      *controller.Controller
	state     types.State
	size      int64
	startups  int
	shutdowns int
}

func (f *simFrontend) Startup(name, frontendIP, clusterIP string, size, sectorSize int64, rw types.IOs) error {
	f.mu.Lock()
	defer f.mu.Unlock()
	f.rw = rw
	f.state = types.StateUp
	f.size = size
	f.startups++
	return nil
}
func (f *simFrontend) Shutdown() error {
	f.mu.Lock()
	defer f.mu.Unlock()
	f.state = types.StateDown
	f.shutdowns++
	return nil
}
func (f *simFrontend) State() types.State {
	f.mu.Lock()
	defer f.mu.Unlock()
	if f.state == "" {
		return types.StateDown
	}
	return f.state
}
func (f *simFrontend) Stats() types.Stats { return types.Stats{} }
func (f *simFrontend) Resize(sz uint64) error {
	f.mu.Lock()
	defer f.mu.Unlock()
	f.size = int64(sz)
	return nil
}
func (f *simFrontend) up() (types.IOs, bool) {
	f.mu.Lock()
	defer f.mu.Unlock()
	return f.rw, f.state == types.StateUp && f.rw != nil
}

// ---------------------------------------------------------------- nodes

type repNode struct {
	idx       int
	name      string
	ip        string
	addr      string // tcp://ip:9502
	node      *simrt.Node
	base      string
	dir       string
	inc       int
	up        bool
	scripted  bool // killed by the script: only the script restarts it
	restartAt time.Duration
	starts    int
	agent     *agentStub
}

type cluster struct {
	w       *simrt.World
	res     *Result
	root    string
	rf      int
	size    int64
	ctrlN   *simrt.Node
	adminN  *simrt.Node
	ctrl    *controller.Controller
	fe      *simFrontend
	handler http.Handler
	reps    []*repNode
	extra   []*repNode // replica processes of other volumes (clone)
	mu      sync.Mutex // protects the observation logs below

	// frame log (data connections)
	streams map[string]*frameStream
	onFrame func(fr *obsFrame)

	httpLog     []*simrt.HTTPReqInfo
	httpFault   func(r *simrt.HTTPReqInfo) simrt.HTTPVerdict
	hookFn      func(g *simrt.G, name string, args ...interface{})
	punchFree   map[string]time.Duration // node -> simulated time until which the puncher's current burst runs
	punchBursts map[string]int
	punchLag    int64                 // ms: upper bound of the per-hole delay of the background puncher (0 = eager)
	diskArms    map[string]*clDiskArm // node name -> one-shot data-file fault (guarded by mu)
}

type obsFrame struct {
	conn     *simrt.TCPConn
	toServer bool
	target   string // replica node name
	f        *frame
	at       time.Duration
}

type frameStream struct {
	buf bytes.Buffer
}

// observeSegment sees bytes when they are sent; observeDelivery when they
// arrive. Requests are judged at send time (what the controller tried to do),
// replies at delivery time (what the controller could know).
func (c *cluster) observeSegment(conn *simrt.TCPConn, toServer bool, n int, data []byte) {
	if toServer {
		c.observe(conn, toServer, data)
	}
}

func (c *cluster) observeDelivery(conn *simrt.TCPConn, toServer bool, n int, data []byte) {
	if !toServer {
		c.observe(conn, toServer, data)
	}
}

func (c *cluster) observe(conn *simrt.TCPConn, toServer bool, data []byte) {
	if conn.ServerNode() == nil || !strings.HasSuffix(conn.RemoteAddr().String(), ":9503") && !strings.HasSuffix(conn.LocalAddr().String(), ":9503") {
		return
	}
	key := conn.Key() + dirName(toServer)
	c.mu.Lock()
	st := c.streams[key]
	if st == nil {
		st = &frameStream{}
		c.streams[key] = st
	}
	st.buf.Write(data)
	var out []*obsFrame
	for {
		b := st.buf.Bytes()
		if len(b) < hdrLen {
			break
		}
		dl := int(binary.LittleEndian.Uint32(b[26:]))
		if dl > 1<<24 || len(b) < hdrLen+dl {
			break
		}
		f, err := readFrame(bytes.NewReader(b[:hdrLen+dl]))
		st.buf.Next(hdrLen + dl)
		if err != nil {
			break
		}
		out = append(out, &obsFrame{conn: conn, toServer: toServer, target: conn.ServerNode().Name, f: f, at: c.w.Now()})
	}
	c.mu.Unlock()
	if c.onFrame != nil {
		for _, fr := range out {
			c.onFrame(fr)
		}
	}
}

func dirName(toServer bool) string {
	if toServer {
		return ">"
	}
	return "<"
}

func newCluster(w *simrt.World, res *Result, root string, rf int, size int64, nreps int) *cluster {
	c := &cluster{w: w, res: res, root: root, rf: rf, size: size, streams: map[string]*frameStream{}}
	w.OnSegment = c.observeSegment
	w.OnDeliver = c.observeDelivery
	w.HTTPPolicy = func(r *simrt.HTTPReqInfo) simrt.HTTPVerdict {
		c.mu.Lock()
		c.httpLog = append(c.httpLog, r)
		c.mu.Unlock()
		if c.httpFault != nil {
			return c.httpFault(r)
		}
		return simrt.HTTPDeliver
	}
	w.HookFn = func(g *simrt.G, name string, args ...interface{}) {
		if name == "AddPunchHoleTimeout" && g != nil && g.Node != nil {
			// The puncher has just taken an entry from its queue.
			// (a) jiva's drain handshake (holeDrainer sets a flag, queues an empty entry and
			// polls the flag every second) races with it inside one quiescent step: whether
			// the poller sees the answer at once or a second later would depend on the Go
			// scheduler. A simulated delay makes the puncher answer after the poller's look.
			// (b) with punchLag the delay is long, so that punching overlaps later writes,
			// snapshots, rebuild copies and reloads.
			// The delay is taken once per BURST of entries, not per entry: how many holes one
			// preload queues depends on the physical extent layout the file system happened
			// to choose, which must not leak into simulated time.
			c.mu.Lock()
			if c.punchFree == nil {
				c.punchFree = map[string]time.Duration{}
				c.punchBursts = map[string]int{}
			}
			node := g.Node.Name
			now := w.Now()
			d := time.Duration(0)
			if now > c.punchFree[node] || c.punchBursts[node] == 0 {
				c.punchBursts[node]++
				if c.punchLag > 0 {
					d = time.Duration(1+w.Rand(fmt.Sprintf("punchlag:%s:%d", node, c.punchBursts[node]))%uint64(c.punchLag)) * time.Millisecond
					statMu.Lock()
					c.res.Stats["puncher_delayed"]++
					statMu.Unlock()
				}
				c.punchFree[node] = now + d
				if d > 0 {
					w.TraceNote("punch-burst %s #%d delay %v", node, c.punchBursts[node], d)
				}
			}
			c.mu.Unlock()
			if d > 0 {
				simrt.Sleep(d)
			}
		}
		if c.hookFn != nil {
			c.hookFn(g, name, args...)
		}
	}
	w.DiskFn = c.diskFn
	w.DiskSlowFor = func(dc simrt.DiskCall) time.Duration {
		// around the rpc deadlines (default 30 s, per-run 6..25 s): sometimes just under, sometimes well over
		// (keyed by node and file NAME: the path contains the scratch directory of this process)
		node := ""
		if dc.G != nil && dc.G.Node != nil {
			node = dc.G.Node.Name
		}
		return time.Duration(2+w.Rand(fmt.Sprintf("diskslow:%s:%s:%d", node, filepath.Base(dc.Path), w.Counter("diskslow:"+node)))%58) * time.Second
	}
	simrt.SetNodeVarInit("replica.HoleCreatorChan", holeChanInit)
	os.Setenv("REPLICATION_FACTOR", fmt.Sprint(rf))
	c.ctrlN = w.AddNode("ctrl", "10.0.0.1")
	c.adminN = w.AddNode("admin", "10.0.0.250")
	for i := 0; i < nreps; i++ {
		rn := &repNode{idx: i, name: fmt.Sprintf("r%d", i+1), ip: fmt.Sprintf("10.0.0.%d", i+2)}
		rn.addr = "tcp://" + rn.ip + ":9502"
		rn.base = filepath.Join(root, rn.name)
		rn.dir = filepath.Join(rn.base, "inc-0")
		os.MkdirAll(rn.dir, 0700)
		c.reps = append(c.reps, rn)
	}
	return c
}

func (c *cluster) startController() {
	c.fe = &simFrontend{}
	ready := false
	simrt.GoNamed(c.ctrlN, "ctrl/main", func() {
		ctl := controller.NewController(
			controller.WithName("vol1"),
			controller.WithClusterIP(""),
			controller.WithBackend(dynamic.New(map[string]types.BackendFactory{"tcp": remote.New()})),
			controller.WithFrontend(c.fe, "10.0.0.1"),
			controller.WithRF(c.rf))
		c.ctrl = ctl
		c.fe.ctrl = ctl
		c.handler = http.Handler(crest.NewRouter(crest.NewServer(ctl)))
		ready = true
		c.w.Kick()
		simrt.ListenAndServe("10.0.0.1:9501", c.handler)
	})
	c.w.Pump(func() bool { return ready && c.w.HasHTTP("10.0.0.1:9501") }, c.w.Now()+time.Second, nil)
}

func (c *cluster) startReplica(rn *repNode) {
	rn.node = c.w.AddNode(rn.name, rn.ip)
	rn.up = true
	rn.scripted = false
	rn.starts++
	rn.agent = newAgentStub(c, rn)
	c.w.ServeOn(rn.node, rn.ip+":9504", rn.agent)
	dir := rn.dir
	c.w.TraceNote("start %s inc=%d", rn.name, rn.inc)
	simrt.GoNamed(rn.node, fmt.Sprintf("%s.%d/main", rn.name, rn.starts), func() {
		app := cli.NewApp()
		app.Writer = devNull{}
		app.ErrWriter = devNull{}
		app.Commands = []cli.Command{japp.ReplicaCmd()}
		app.Run([]string{"jiva", "replica", "--frontendIP", "10.0.0.1", "--listen", rn.ip + ":9502",
			"--size", fmt.Sprint(c.size), "--sync-agent=false", "--logtofile=false", dir})
	})
}

type devNull struct{}

func (devNull) Write(b []byte) (int, error) { return len(b), nil }

// killReplica: process death. Only what the kernel had been told survives.
func (c *cluster) killReplica(rn *repNode, why string) {
	if rn.node != nil {
		c.w.KillNode(rn.node, why)
	}
	c.retire(rn)
}

// retire moves a dead incarnation's directory aside so that zombie goroutines
// can no longer reach it by path, and nulls their file descriptors.
func (c *cluster) retire(rn *repNode) {
	if !rn.up {
		return
	}
	rn.up = false
	nullFDsUnder(rn.dir)
	rn.inc++
	nd := filepath.Join(rn.base, fmt.Sprintf("inc-%d", rn.inc))
	if err := os.Rename(rn.dir, nd); err != nil {
		if os.IsNotExist(err) {
			os.MkdirAll(nd, 0700) // the volume was deleted through the API (DeleteAll removes the directory)
		} else {
			c.res.Infra = "rename replica dir: " + err.Error()
		}
	}
	rn.dir = nd
}

// reapExited handles replicas whose process called exit: the "kubelet"
// restarts them after a back-off (unless the script killed them).
func (c *cluster) reapExited() {
	now := c.w.Now()
	for _, rn := range c.reps {
		if rn.up && rn.node != nil && rn.node.Dead() {
			c.res.stat("replica_self_exit", 1)
			c.retire(rn)
			rn.restartAt = now + 5*time.Second
			k := rn
			c.w.Post(rn.restartAt, fmt.Sprintf("kubelet-restart-%s-%d", rn.name, rn.inc), func() {
				if !k.up && !k.scripted {
					c.startReplica(k)
				}
			})
		}
	}
}

// ---------------------------------------------------------------- admin REST calls (direct handler invocation, no network)

func (c *cluster) ctrlGET(path string, out interface{}) int {
	rec := httptest.NewRecorder()
	c.handler.ServeHTTP(rec, httptest.NewRequest("GET", "http://10.0.0.1:9501"+path, nil))
	if out != nil {
		json.Unmarshal(rec.Body.Bytes(), out)
	}
	return rec.Code
}

// ---------------------------------------------------------------- sync agent stub

type agentProc struct {
	ID       string
	Type     string
	Src      string
	Dest     string
	Host     string
	Port     int
	ExitCode int
}

type agentStub struct {
	c      *cluster
	rn     *repNode
	mu     sync.Mutex
	procs  map[string]*agentProc
	byPort map[int]*agentProc
	n      int
	port   int
	// fault injection
	failNext map[string]int
}

func newAgentStub(c *cluster, rn *repNode) *agentStub {
	return &agentStub{c: c, rn: rn, procs: map[string]*agentProc{}, byPort: map[int]*agentProc{}, port: 9700, failNext: map[string]int{}}
}

func (a *agentStub) procJSON(p *agentProc) []byte {
	self := fmt.Sprintf("http://%s:9504/v1/processes/%s", a.rn.ip, p.ID)
	b, _ := json.Marshal(map[string]interface{}{
		"id": p.ID, "type": "process", "links": map[string]string{"self": self}, "actions": map[string]string{},
		"processType": p.Type, "srcFile": p.Src, "destfile": p.Dest, "host": p.Host, "port": p.Port, "exitCode": p.ExitCode,
	})
	return b
}

func (a *agentStub) ServeHTTP(rw http.ResponseWriter, req *http.Request) {
	switch {
	case req.Method == "POST" && strings.TrimSuffix(req.URL.Path, "/") == "/v1/processes":
		var in struct {
			ProcessType string `json:"processType"`
			SrcFile     string `json:"srcFile"`
			DestFile    string `json:"destfile"`
			Host        string `json:"host"`
			Port        int    `json:"port"`
		}
		if err := json.NewDecoder(req.Body).Decode(&in); err != nil {
			rw.WriteHeader(400)
			return
		}
		a.mu.Lock()
		a.n++
		p := &agentProc{ID: fmt.Sprint(a.n), Type: in.ProcessType, Src: in.SrcFile, Dest: in.DestFile, Host: in.Host, Port: in.Port, ExitCode: -2}
		if in.SrcFile == "" {
			a.port++
			p.Port = a.port
			a.byPort[p.Port] = p
		}
		a.procs[p.ID] = p
		a.mu.Unlock()
		switch {
		case in.ProcessType == "sync" && in.SrcFile == "":
			// receiver: waits for the sender; gives up after 120s like a dangling ssync server would be reaped
		case in.ProcessType == "sync":
			simrt.Go(func() { a.send(p) })
		case in.ProcessType == "fold":
			simrt.Go(func() { a.fold(p) })
		default:
			p.ExitCode = 1
		}
		rw.Header().Set("Content-Type", "application/json")
		rw.Write(a.procJSON(p))
	case req.Method == "GET" && strings.HasPrefix(req.URL.Path, "/v1/processes/"):
		id := strings.TrimPrefix(req.URL.Path, "/v1/processes/")
		a.mu.Lock()
		p := a.procs[id]
		a.mu.Unlock()
		if p == nil {
			rw.WriteHeader(404)
			return
		}
		rw.Header().Set("Content-Type", "application/json")
		rw.Write(a.procJSON(p))
	default:
		rw.WriteHeader(404)
	}
}

func (a *agentStub) finish(p *agentProc, code int) {
	a.mu.Lock()
	p.ExitCode = code
	a.mu.Unlock()
}

// send plays `ssync <src> -host H -port P`: copies rn.dir/src into the
// receiver's directory, sparse-exact, in small chunks with simulated pauses so
// that foreground writes interleave with the copy.
func (a *agentStub) send(p *agentProc) {
	c := a.c
	var dst *repNode
	for _, r := range append(append([]*repNode(nil), c.reps...), c.extra...) {
		if r.ip == p.Host {
			dst = r
		}
	}
	if dst == nil || !dst.up || dst.agent == nil {
		a.finish(p, 1)
		return
	}
	dst.agent.mu.Lock()
	recv := dst.agent.byPort[p.Port]
	dst.agent.mu.Unlock()
	if recv == nil || recv.ExitCode != -2 {
		a.finish(p, 1)
		return
	}
	c.res.stat("sync_files", 1)
	// an armed transfer failure strikes the next DATA file (on a .meta file, one chunk, it would be used up
	// without any effect): half of the time before anything is copied, otherwise after the first chunk
	dstNode := dst.node
	failAt := -1
	if !strings.HasSuffix(p.Src, ".meta") {
		a.mu.Lock()
		if a.failNext["sync"] > 0 {
			a.failNext["sync"]--
			failAt = int(c.w.Rand(fmt.Sprintf("syncfail:%s:%d", a.rn.name, c.w.Counter("syncfail:"+a.rn.name))) % 2)
			c.res.stat("fault_agent_sync_fired", 1)
		}
		a.mu.Unlock()
	}
	if failAt == 0 {
		c.res.stat("sync_file_failed", 1)
		dst.agent.finish(recv, 1)
		a.finish(p, 1)
		return
	}
	err := sparseSync(filepath.Join(a.rn.dir, p.Src), filepath.Join(dst.dir, recv.Dest), func(chunk int) error {
		simrt.Sleep(200 * time.Microsecond)
		if dstNode.Dead() {
			return fmt.Errorf("receiver died")
		}
		if chunk == failAt {
			return fmt.Errorf("injected transfer failure")
		}
		return nil
	})
	code := 0
	if err != nil {
		code = 1
		c.res.stat("sync_file_failed", 1)
	}
	dst.agent.finish(recv, code)
	a.finish(p, code)
}

func (a *agentStub) fold(p *agentProc) {
	simrt.Sleep(time.Millisecond)
	a.mu.Lock()
	fail := a.failNext["fold"] > 0
	if fail {
		a.failNext["fold"]--
	}
	a.mu.Unlock()
	if fail {
		// sfold exits non-zero before touching the files (e.g. it could not open one)
		a.c.res.stat("fold_file_failed", 1)
		a.finish(p, 1)
		return
	}
	a.c.res.stat("fold_files", 1)
	err := sparse.FoldFile(filepath.Join(a.rn.dir, p.Src), filepath.Join(a.rn.dir, p.Dest), &foldStub{})
	if err != nil {
		a.finish(p, 1)
		return
	}
	a.finish(p, 0)
}

// sparseSync makes dst an exact sparse copy of src (data where src has data,
// holes where src has holes), in place like ssync does.
func sparseSync(src, dst string, yield func(chunk int) error) error {
	in, err := os.Open(src)
	if err != nil {
		return err
	}
	defer in.Close()
	st, err := in.Stat()
	if err != nil {
		return err
	}
	out, err := os.OpenFile(dst, os.O_CREATE|os.O_RDWR, 0666)
	if err != nil {
		return err
	}
	defer out.Close()
	if err := out.Truncate(st.Size()); err != nil {
		return err
	}
	rs, err := dataRanges(in, st.Size())
	if err != nil {
		return err
	}
	chunk := 0
	pos := int64(0)
	buf := make([]byte, 4*blk)
	punch := func(from, to int64) error {
		if to > from {
			return sparsePunch(out, from, to-from)
		}
		return nil
	}
	for _, r := range rs {
		if err := punch(pos, r[0]); err != nil {
			return err
		}
		for off := r[0]; off < r[1]; {
			n := int64(len(buf))
			if off+n > r[1] {
				n = r[1] - off
			}
			m, rerr := in.ReadAt(buf[:n], off)
			if m > 0 {
				if _, werr := out.WriteAt(buf[:m], off); werr != nil {
					return werr
				}
			}
			if rerr != nil && m == 0 {
				return rerr
			}
			off += int64(m)
			chunk++
			if err := yield(chunk); err != nil {
				return err
			}
		}
		pos = r[1]
	}
	if err := punch(pos, st.Size()); err != nil {
		return err
	}
	return out.Sync()
}

// sortedReps is a helper for deterministic iteration.
func sortedNames(m map[string]bool) []string {
	var ks []string
	for k := range m {
		ks = append(ks, k)
	}
	sort.Strings(ks)
	return ks
}

// clDiskArm: the (skip+1)-th data-file call of the armed direction on that
// replica fails once (R10).
type clDiskArm struct {
	read bool
	skip int
	kind simrt.DiskVerdict
}

func (c *cluster) diskFn(dc simrt.DiskCall) simrt.DiskVerdict {
	if dc.G == nil || dc.G.Node == nil {
		return simrt.DiskOK
	}
	c.mu.Lock()
	defer c.mu.Unlock()
	a := c.diskArms[dc.G.Node.Name]
	if a == nil || a.read == dc.Write {
		return simrt.DiskOK
	}
	if a.skip > 0 {
		a.skip--
		return simrt.DiskOK
	}
	delete(c.diskArms, dc.G.Node.Name)
	if a.read {
		if a.kind == simrt.DiskSlow {
			c.res.stat("fault_disk_read_slow_fired", 1)
			return simrt.DiskSlow
		}
		c.res.stat("fault_disk_read_eio_fired", 1)
		return simrt.DiskEIO
	}
	c.res.stat(fmt.Sprintf("fault_disk_write_%s_fired", []string{"ok", "eio", "enospc", "short", "slow"}[int(a.kind)]), 1)
	return a.kind
}
