package sim

import (
	"bytes"
	"encoding/base64"
	"fmt"
	"io"
	"net/http"
	"os"
	"path/filepath"
	"strings"
	"testing"
	"testing/synctest"
	"time"

	"github.com/openebs/jiva/replica"
	rrest "github.com/openebs/jiva/replica/rest"
	"github.com/openebs/jiva/types"
	"verif/simrt"
)

// apifuzz (C14): every management route x method x query x id encoding x body
// against (a) a replica REST server over a real replica.Server driven through
// its states, (b) the controller REST server of a booted cluster. Requests
// travel over the simulated network so that a handler panic, a runtime fatal
// (unlock of unlocked mutex), a process exit, a wedged handler and a leaked
// lock are all observable.

type apifuzz struct{}

func (apifuzz) Name() string { return "apifuzz" }

func init() {
	register(apifuzz{})
	propEngines["C14"] = append(propEngines["C14"], "apifuzz")
}

var fuzzMethods = []string{"GET", "POST", "PUT", "DELETE", "PATCH", "HEAD"}

var repActions = []string{"start", "reload", "updatecloneinfo", "snapshot", "open", "close", "resize", "removedisk", "replacedisk", "setrebuilding",
	"setlogging", "create", "revert", "prepareremovedisk", "setrevisioncounter", "setreplicamode", "setcheckpoint", "bogus", ""}

var repPaths = []string{"/ping", "/", "/v1", "/v1/schemas", "/v1/schemas/replica", "/v1/stats", "/v1/rebuildinfo", "/v1/replicas", "/v1/replicas/1",
	"/v1/replicas/2", "/v1/replicas/1/volusage", "/v1/delete", "/metrics", "/v1/replicas/", "/v1/nothing", "/v1/replicas/%zz"}

var ctlActions = []string{"start", "shutdown", "snapshot", "revert", "resize", "setlogging", "deleteSnapshot", "preparerebuild", "verifyrebuild", "bogus", ""}

var ctlPaths = []string{"/", "/v1", "/v1/schemas", "/v1/volumes", "/v1/volumes/VOL", "/v1/volumes/nosuch", "/v1/stats", "/v1/checkpoint", "/v1/replicas",
	"/v1/replicas/REP", "/v1/replicas/BADID", "/v1/replicas/", "/v1/register", "/v1/quorumreplicas", "/v1/journal", "/v1/delete", "/timeout", "/metrics", "/v1/nothing"}

// bodies: index -> generator
func fuzzBody(k int, rng func(string) uint64, addr string) (string, string) {
	switch k % 18 {
	case 0:
		return "", "empty"
	case 1:
		return "null", "null"
	case 2:
		return `{"name":"fz","created":"2020-01-01T00:00:00Z","usercreated":true}`, "snapshot-input"
	case 3:
		return `{"name":"vol1","size":"` + fmt.Sprint(1<<20) + `"}`, "resize-input"
	case 4:
		return `{"name":"volume-snap-fz.img"`, "truncated"
	case 5:
		return `{"name":12345,"size":true,"rebuilding":"yes","counter":[1,2],"mode":{"a":1}}`, "wrong-types"
	case 6:
		return `{"address":"` + addr + `","mode":"ERR"}`, "replica-input"
	case 7:
		return `{"replicas":["` + addr + `"]}`, "start-input"
	case 8:
		return strings.Repeat(`{"a":`, 200) + "1" + strings.Repeat("}", 200), "deeply-nested"
	case 9:
		return `{"pad":"` + strings.Repeat("x", 1<<20) + `"}`, "1MiB"
	case 10:
		return `{"Address":"10.0.0.9","UUID":"u","RevCount":"7","RepType":"Backend","UpTime":1,"RepState":"closed"}`, "register-input"
	case 11:
		// (every action finds its fields here, all under the same names)
		return `{"name":"fz","created":"2020-01-01T00:00:00Z","usercreated":true,"rebuilding":true,"mode":"RW","counter":"9","snapshotName":"volume-snap-fz.img","Action":"start","snapname":"fz","revisioncounter":"3"}`, "mixed-valid"
	case 12:
		return "\x00\xff\xfe garbage \x01", "binary"
	case 14:
		// well-typed fields with malformed VALUES: an address without a port, ...
		return `{"address":"tcp://10.0.0.77","mode":"RW","name":"","size":"-4096","snapshotName":"","snapname":"../x","counter":"-1"}`, "address-without-port"
	case 15:
		// ... without a scheme, a name with a path in it, a size that is no number, ...
		return `{"address":"10.0.0.77:9502","mode":"rw","name":"a/b","size":"12x","snapshotName":"volume-head-000.img","snapname":"volume-snap-.img","counter":"1e3"}`, "address-without-scheme"
	case 16:
		// ... an empty address, huge numbers
		return `{"address":"","mode":"","name":"` + strings.Repeat("n", 300) + `","size":"99999999999999999999","revisioncounter":"99999999999999999999","counter":"9223372036854775807"}`, "empty-address-huge-numbers"
	case 17:
		return `{"address":"tcp://10.0.0.77:notaport","mode":"WO","name":"volume-snap-fz.img","size":"0","replicas":["tcp://10.0.0.77","",":"]}`, "address-bad-port"
	default:
		return `[1,2,3]`, "array"
	}
}

func (apifuzz) Generate(rng *Rand, prop, tier string) *Script {
	s := &Script{Engine: "apifuzz", Prop: prop, Cfg: map[string]int64{}}
	if rng.Bool(50) {
		s.Cfg["jitter"] = int64([]int{20, 100, 400}[rng.Intn(3)]) // microseconds of simulated time before lock requests
	}
	if rng.Bool(25) {
		s.Cfg["seljit"] = int64(rng.Range(1, 5))
	}
	if rng.Bool(55) {
		s.Cfg["mode"] = 0 // replica
		s.Cfg["blocks"] = int64(rng.Range(4, 10))
		n := rng.Range(4, 40)
		for i := 0; i < n; i++ {
			if rng.Bool(25) {
				s.Ops = append(s.Ops, Op{K: "state", A: int64(rng.Intn(9))})
				continue
			}
			op := Op{K: "req", A: int64(rng.Intn(len(fuzzMethods))), B: int64(rng.Intn(len(repPaths))), C: int64(rng.Intn(len(repActions) + 4)), D: int64(rng.Intn(18))}
			if rng.Bool(60) {
				op.A, op.B = 1, 8 // POST /v1/replicas/1?action=...
			}
			if rng.Bool(15) {
				op.F, op.E = true, int64(rng.Intn(600)) // an overlapping second request E microseconds later
			}
			s.Ops = append(s.Ops, op)
			if rng.Bool(25) {
				// the same body (same names) sent to another action straight afterwards: state that one
				// action leaves behind under a name meets the next action using that name
				op2 := op
				op2.A, op2.B = 1, 8
				op2.C = int64(rng.Intn(len(repActions)))
				if rng.Bool(50) {
					// ... with the body in which every action finds its fields
					s.Ops[len(s.Ops)-1].D, op2.D = 11, 11
					s.Ops[len(s.Ops)-1].A, s.Ops[len(s.Ops)-1].B = 1, 8
					if s.Ops[len(s.Ops)-1].C >= int64(len(repActions)) {
						s.Ops[len(s.Ops)-1].C = int64(rng.Intn(len(repActions)))
					}
				}
				s.Ops = append(s.Ops, op2)
			}
			if rng.Bool(12) { // the same request many times in a row (queues, counters, channels fill up)
				for k, m := 0, rng.Range(5, 9); k < m; k++ {
					s.Ops = append(s.Ops, op)
				}
			}
		}
		return s
	}
	s.Cfg["mode"] = 1 // controller
	s.Cfg["rf"] = int64(rng.Range(1, 3))
	s.Cfg["blocks"] = 4
	s.Cfg["bootfor"] = []int64{0, 1, 3, 60, 60, 60}[rng.Intn(6)] // fuzz while bootstrapping or when healthy
	n := rng.Range(4, 30)
	for i := 0; i < n; i++ {
		switch x := rng.Intn(100); {
		case x < 10:
			s.Ops = append(s.Ops, Op{K: "cstate", A: int64(rng.Intn(4)), B: int64(rng.Intn(3))})
		case x < 14 && rng.Bool(50):
			// a replica process is replaced by a new one under the same address and the volume is asked to start
			// with it (or with what is left) right away: the controller meets a replica that is not open
			if rng.Bool(60) {
				s.Ops = append(s.Ops, Op{K: "cstate", A: 0, B: 7})
			}
			s.Ops = append(s.Ops, Op{K: "cstate", A: 1, B: 7})
			s.Ops = append(s.Ops, Op{K: "req", A: 1, B: 4, C: 0, D: 7, S: "0", F: rng.Bool(30), E: int64(rng.Intn(600))})
		case x < 16 && s.Cfg["rf"] >= 2:
			// a replica is restarted and its rebuild held for half a simulated minute: the requests that follow meet
			// a controller with a WO (rebuilding) replica attached
			s.Ops = append(s.Ops, Op{K: "cstate", A: 4, B: int64(rng.Intn(3))})
		default:
			op := Op{K: "req", A: int64(rng.Intn(len(fuzzMethods))), B: int64(rng.Intn(len(ctlPaths))), C: int64(rng.Intn(len(ctlActions) + 3)), D: int64(rng.Intn(18)), S: fmt.Sprint(rng.Intn(3))}
			if rng.Bool(50) {
				op.A = 1
				op.B = []int64{4, 9}[rng.Intn(2)]
			} else if rng.Bool(20) {
				op.A = 1
				op.B = []int64{8, 12, 13}[rng.Intn(3)] // POST /v1/replicas, /v1/register, /v1/quorumreplicas
			}
			if rng.Bool(10) {
				op.A, op.B, op.C = 3, 4, 6 // DELETE /v1/volumes/VOL?action=deleteSnapshot
			}
			if rng.Bool(15) {
				op.F, op.E = true, int64(rng.Intn(600))
			}
			s.Ops = append(s.Ops, op)
		}
	}
	return s
}

type fzRun struct {
	t     *testing.T
	s     *Script
	res   *Result
	w     *simrt.World
	step  int
	shape []string
	// replica mode
	srv  *replica.Server
	dir  string
	repN *simrt.Node
	// controller mode
	c      *cluster
	adminN *simrt.Node
	ended  bool
	shadow *fzShadow // armed: the next request gets an overlapping companion
}

func (fr *fzRun) viol(clause, format string, a ...interface{}) {
	if fr.res.V != nil {
		return
	}
	fr.res.V = &Violation{Prop: "C14", Clause: clause, Msg: fmt.Sprintf(format, a...), Step: fr.step}
}

func (apifuzz) Run(t *testing.T, s *Script) *Result {
	res := &Result{Stats: map[string]int64{}}
	dir := newRunDir()
	defer os.RemoveAll(dir)
	infra := inBubble(t, func() {
		fr := &fzRun{t: t, s: s, res: res, dir: dir}
		if s.Cfg["mode"] == 0 {
			fr.runReplica()
		} else {
			fr.runController()
		}
	})
	if infra != "" && res.Infra == "" {
		res.Infra = infra
	}
	return res
}

type fzShadow struct {
	delay  time.Duration
	get    bool
	getURL string
}

type fzResp struct {
	code int
	err  error
	body []byte
	hung bool
}

// send issues one HTTP request from the admin node over the simulated network.
func (fr *fzRun) send(method, url, body string) *fzResp {
	r := &fzResp{}
	done := false
	// a second request, overlapping this one (armed by the script): the same request again, or a
	// GET of the resource; both must be answered
	sdone := true
	var sr *fzResp
	if sh := fr.shadow; sh != nil {
		fr.shadow = nil
		sdone = false
		sr = &fzResp{}
		sm, su, sb := method, url, body
		if sh.get {
			sm, su, sb = "GET", sh.getURL, ""
		}
		fr.res.stat("overlapping_requests", 1)
		fr.w.After(sh.delay, fmt.Sprintf("shadow-%d-%d", fr.step, fr.w.Counter("fzshadow")), func() {
			simrt.GoNamed(fr.adminN, fmt.Sprintf("admin/shadow%d-%d", fr.step, fr.w.Counter("fzshadowg")), func() {
				defer func() { sdone = true; fr.w.Kick() }()
				req, err := http.NewRequest(sm, su, strings.NewReader(sb))
				if err != nil {
					sr.err = err
					return
				}
				if sb != "" {
					req.Header.Set("Content-Type", "application/json")
				}
				cl := &http.Client{Timeout: 300 * time.Second}
				resp, err := cl.Do(req)
				if err != nil {
					sr.err = err
					return
				}
				sr.code = resp.StatusCode
				io.ReadAll(resp.Body)
				resp.Body.Close()
			})
		})
	}
	simrt.GoNamed(fr.adminN, fmt.Sprintf("admin/req%d-%d", fr.step, fr.w.Counter("fzreq")), func() {
		req, err := http.NewRequest(method, url, strings.NewReader(body))
		if err != nil {
			r.err = err
			done = true
			fr.w.Kick()
			return
		}
		if body != "" {
			req.Header.Set("Content-Type", "application/json")
		}
		cl := &http.Client{Timeout: 300 * time.Second}
		resp, err := cl.Do(req)
		if err != nil {
			r.err = err
		} else {
			r.code = resp.StatusCode
			r.body, _ = io.ReadAll(resp.Body)
			resp.Body.Close()
		}
		done = true
		fr.w.Kick()
	})
	var onQ func()
	if fr.c != nil {
		onQ = fr.c.reapExited
	}
	if !fr.w.Pump(func() bool { return done && sdone }, fr.w.Now()+400*time.Second, onQ) {
		r.hung = true
	}
	if sr != nil && sr.err != nil && (strings.Contains(sr.err.Error(), "Timeout") || strings.Contains(sr.err.Error(), "deadline exceeded")) {
		r.hung = true // the overlapping request was never answered
	}
	if r.err != nil && strings.Contains(r.err.Error(), "Timeout") || r.err != nil && strings.Contains(r.err.Error(), "deadline exceeded") {
		r.hung = true
	}
	return r
}

// checkAfter: detectors common to both targets.
func (fr *fzRun) checkAfter(desc string, node *simrt.Node, panicsBefore, fatalsBefore int, r *fzResp, mayExit bool) bool {
	w := fr.w
	if len(w.Fatals) > fatalsBefore {
		fr.viol("runtime-fatal-in-handler", "%s: %s", desc, w.Fatals[len(w.Fatals)-1])
		return false
	}
	if len(w.Panics) > panicsBefore {
		fr.viol("handler-panic", "%s: %s", desc, firstLine(w.Panics[panicsBefore:]))
		return false
	}
	if node != nil && node.Dead() && !mayExit {
		fr.viol("process-exited", "%s: the process exited (%s)", desc, node.ExitedBy)
		return false
	}
	if r.hung {
		fr.viol("request-never-answered", "%s: no response within 300 simulated seconds", desc)
		return false
	}
	return true
}

// ---------------------------------------------------------------- replica target

func (fr *fzRun) runReplica() {
	s := fr.s
	w := simrt.NewWorld(s.Seed, synctest.Wait)
	w.StrictLocks = os.Getenv("VERIF_LOOSE_LOCKS") == ""
	w.LockJitter = time.Duration(s.Cfg["jitter"]) * time.Microsecond
	w.SelectJitter = int(s.Cfg["seljit"])
	w.TraceOn = os.Getenv("VERIF_TRACE") != ""
	defer w.Close()
	fr.w = w
	fr.adminN = w.AddNode("admin", "10.0.0.250")
	fr.repN = w.AddNode("rep", "10.0.0.2")
	simrt.SetNodeVarInit("replica.HoleCreatorChan", holeChanInit)
	types.ShouldPunchHoles = true
	types.MaxChainLength = 0
	vdir := filepath.Join(fr.dir, "vol")
	os.MkdirAll(vdir, 0700)
	size := s.Cfg["blocks"] * blk
	ready := false
	simrt.GoNamed(fr.repN, "rep/main", func() {
		fr.srv = replica.NewServer("10.0.0.2:9502", vdir, sect, "")
		simrt.Go(replica.CreateHoles)
		ready = true
		w.Kick()
		simrt.ListenAndServe("10.0.0.2:9502", rrest.NewRouter(rrest.NewServer(fr.srv)))
	})
	w.Pump(func() bool { return ready && w.HasHTTP("10.0.0.2:9502") }, time.Second, nil)
	do := func(f func()) {
		done := false
		simrt.GoNamed(fr.repN, fmt.Sprintf("rep/st%d", w.Counter("st")), func() { f(); done = true; w.Kick() })
		w.Pump(func() bool { return done }, w.Now()+10*time.Minute, nil)
	}
	snapN := 0
	for i, op := range s.Ops {
		if fr.res.V != nil || fr.ended {
			break
		}
		fr.step = i
		switch op.K {
		case "state":
			// valid state-changing calls keep the target moving through its states
			do(func() {
				switch op.A {
				case 0:
					fr.srv.Create(size)
				case 1:
					fr.srv.Open()
					fr.srv.SetReplicaMode("RW")
				case 2:
					fr.srv.Close()
				case 3:
					fr.srv.WriteAt(stampData(i, 0, 8), 0)
				case 4:
					snapN++
					fr.srv.Snapshot(fmt.Sprintf("st%d", snapN), snapN%2 == 0, "2020-01-01T00:00:00Z")
				case 5:
					fr.srv.SetRebuilding(true)
				case 6:
					fr.srv.SetRebuilding(false)
				case 7:
					fr.srv.WriteAt(stampData(i, 8, 16), 8*sect) // queues holes after a snapshot
				case 8:
					if st, _ := fr.srv.Status(); st == replica.Closed && i%3 == 0 {
						os.WriteFile(filepath.Join(vdir, "volume.meta"), []byte("{garbage"), 0644) // state "error"
					}
				}
			})
			fr.shape = append(fr.shape, fmt.Sprintf("state%d", op.A))
		case "req":
			method := fuzzMethods[int(op.A)%len(fuzzMethods)]
			path := repPaths[int(op.B)%len(repPaths)]
			q := ""
			action := ""
			if int(op.C) < len(repActions) {
				action = repActions[op.C]
				q = "?action=" + action
			}
			body, bname := fuzzBody(int(op.D), nil, "tcp://10.0.0.2:9502")
			if method == "GET" || method == "HEAD" {
				body = ""
			}
			st, _ := fr.srv.Status()
			desc := fmt.Sprintf("replica state %s: %s %s%s body=%s", st, method, path, q, bname)
			pb, fb := len(w.Panics), len(w.Fatals)
			if op.F {
				fr.shadow = &fzShadow{delay: time.Duration(op.E) * time.Microsecond, get: op.E%2 == 0, getURL: "http://10.0.0.2:9502/v1/replicas/1"}
			}
			r := fr.send(method, "http://10.0.0.2:9502"+path+q, body)
			fr.res.stat("replica_requests", 1)
			fr.shape = append(fr.shape, fmt.Sprintf("%s:%s:%s:%d", st, method, action, r.code/100))
			mayExit := false
			if !fr.checkAfter(desc, fr.repN, pb, fb, r, mayExit) {
				return
			}
			// no lock may stay held once the request is answered
			w.Pump(nil, w.Now()+2*time.Second, nil)
			if wr, rd, holder, _ := fr.srv.RWMutex.State(); (wr || rd > 0) && (strings.HasPrefix(holder, "http:admin>") || holder == "") {
				fr.viol("lock-held-after-request", "%s: the replica server lock is still held (writer=%v readers=%d holder=%s)", desc, wr, rd, holder)
				return
			}
			// liveness probe
			pr := fr.send("GET", "http://10.0.0.2:9502/v1/replicas/1", "")
			if pr.hung || pr.err != nil || pr.code != 200 {
				fr.viol("server-unusable-after-request", "%s: afterwards GET /v1/replicas/1 -> code %d err %v hung=%v", desc, pr.code, pr.err, pr.hung)
				return
			}
			if method == "DELETE" && (path == "/v1/delete" || path == "/v1/replicas/1") && r.code < 300 {
				fr.ended = true // documented effect: the volume is gone
			}
		}
	}
	fr.finish()
}

func (fr *fzRun) finish() {
	w := fr.w
	fr.res.SimNanos = int64(w.Now())
	fr.res.Steps = w.Steps
	for k, v := range w.Probes() {
		fr.res.Stats[k] += int64(v)
	}
	fr.res.Shape = hashStrings(fr.shape)
	if f := os.Getenv("VERIF_SHAPE_FILE"); f != "" {
		os.WriteFile(f, []byte(strings.Join(fr.shape, "\n")+"\n"), 0644)
	}
	fr.res.Nontrivial = fr.res.Stats["replica_requests"]+fr.res.Stats["controller_requests"] > 0
	fr.res.TraceHash = hashTrace(w.Trace)
}

// ---------------------------------------------------------------- controller target

func (fr *fzRun) runController() {
	s := fr.s
	w := simrt.NewWorld(s.Seed, synctest.Wait)
	w.StrictLocks = os.Getenv("VERIF_LOOSE_LOCKS") == ""
	w.LockJitter = time.Duration(s.Cfg["jitter"]) * time.Microsecond
	w.SelectJitter = int(s.Cfg["seljit"])
	w.TraceOn = os.Getenv("VERIF_TRACE") != ""
	defer w.Close()
	fr.w = w
	rf := int(s.Cfg["rf"])
	types.ShouldPunchHoles = false
	c := newCluster(w, fr.res, fr.dir, rf, s.Cfg["blocks"]*blk, rf)
	fr.c = c
	fr.adminN = c.adminN
	c.startController()
	for _, rn := range c.reps {
		c.startReplica(rn)
	}
	allRW := func() bool {
		if c.ctrl == nil {
			return false
		}
		wr, rd, _, wt := c.ctrl.RWMutex.State()
		if wr || rd > 0 || wt > 0 {
			return false
		}
		l := c.ctrl.ListReplicas()
		return len(l) == rf && countMode(l, types.RW) == rf
	}
	w.Pump(allRW, w.Now()+time.Duration(s.Cfg["bootfor"])*time.Second, c.reapExited)
	vol := "dm9sMQ==" // base64("vol1")
	for i, op := range s.Ops {
		if fr.res.V != nil || fr.ended {
			break
		}
		fr.step = i
		switch op.K {
		case "cstate":
			rn := c.reps[int(op.B)%len(c.reps)]
			switch op.A {
			case 0:
				if rn.up {
					rn.scripted = true
					c.killReplica(rn, "script")
				}
			case 1:
				if !rn.up {
					c.startReplica(rn)
				}
			case 2:
				w.Pump(nil, w.Now()+30*time.Second, c.reapExited)
			case 3:
				w.Pump(allRW, w.Now()+120*time.Second, c.reapExited)
			case 4:
				if rn.up {
					rn.scripted = true
					c.killReplica(rn, "script")
					w.Pump(nil, w.Now()+15*time.Second, c.reapExited)
				}
				held := rn.name
				c.hookFn = func(g *simrt.G, hook string, args ...interface{}) {
					if g != nil && g.Node != nil && g.Node.Name == held && hook == "PanicAfterPrepareRebuild" {
						fr.res.stat("rebuild_held", 1)
						simrt.Sleep(30 * time.Second)
					}
				}
				c.startReplica(rn)
				hasWO := func() bool { return c.ctrl != nil && countMode(c.ctrl.ListReplicas(), types.WO) > 0 }
				if w.Pump(hasWO, w.Now()+60*time.Second, c.reapExited) {
					fr.res.stat("requests_meet_rebuilding_replica", 1)
				}
			}
			fr.shape = append(fr.shape, fmt.Sprintf("cstate%d", op.A))
		case "req":
			method := fuzzMethods[int(op.A)%len(fuzzMethods)]
			rn := c.reps[int(op.D)%len(c.reps)]
			path := ctlPaths[int(op.B)%len(ctlPaths)]
			path = strings.Replace(path, "VOL", vol, 1)
			path = strings.Replace(path, "REP", base64.StdEncoding.EncodeToString([]byte(rn.addr)), 1)
			path = strings.Replace(path, "BADID", "!!notbase64!!", 1)
			q, action := "", ""
			if int(op.C) < len(ctlActions) {
				action = ctlActions[op.C]
				q = "?action=" + action
			}
			body, bname := fuzzBody(int(op.D), nil, rn.addr)
			if method == "GET" || method == "HEAD" {
				body = ""
			}
			nrep := 0
			w.Wait() // a kill just before this request wakes controller goroutines: sample the list at quiescence
			if c.ctrl != nil {
				nrep = len(c.ctrl.ListReplicas())
			}
			desc := fmt.Sprintf("controller (%d/%d replicas): %s %s%s body=%s", nrep, rf, method, path, q, bname)
			pb, fb := len(w.Panics), len(w.Fatals)
			if op.F {
				fr.shadow = &fzShadow{delay: time.Duration(op.E) * time.Microsecond, get: op.E%2 == 0, getURL: "http://10.0.0.1:9501/v1/replicas"}
			}
			r := fr.send(method, "http://10.0.0.1:9501"+path+q, body)
			fr.res.stat("controller_requests", 1)
			fr.shape = append(fr.shape, fmt.Sprintf("%d:%s:%s:%s:%d", nrep, method, strings.Split(path, "/")[len(strings.Split(path, "/"))-1][:min(4, len(strings.Split(path, "/")[len(strings.Split(path, "/"))-1]))], action, r.code/100))
			shutdown := action == "shutdown" || strings.HasSuffix(path, "/v1/delete")
			if !fr.checkAfter(desc, c.ctrlN, pb, fb, r, false) {
				return
			}
			w.Pump(nil, w.Now()+3*time.Second, c.reapExited)
			// the controller lock must be free again once nothing is in flight (bounded wait: background
			// membership work may hold it for a while)
			free := func() bool {
				wr, rd, _, _ := c.ctrl.RWMutex.State()
				return !wr && rd == 0
			}
			if !w.Pump(free, w.Now()+600*time.Second, c.reapExited) {
				// only a lock still held by this request's own handler is a leak; replica
				// add/rebuild traffic may legitimately keep the controller busy
				if _, _, holder, _ := c.ctrl.RWMutex.State(); strings.HasPrefix(holder, "http:admin>") {
					fr.viol("lock-held-after-request", "%s: the controller lock is still held 600 s later by %s", desc, holder)
					return
				}
			}
			pr := fr.send("GET", "http://10.0.0.1:9501/v1/volumes", "")
			if pr.hung || pr.err != nil || pr.code != 200 {
				fr.viol("server-unusable-after-request", "%s: afterwards GET /v1/volumes -> code %d err %v hung=%v", desc, pr.code, pr.err, pr.hung)
				return
			}
			pr = fr.send("GET", "http://10.0.0.1:9501/v1/replicas", "")
			if pr.hung || pr.err != nil || pr.code != 200 {
				fr.viol("server-unusable-after-request", "%s: afterwards GET /v1/replicas -> code %d err %v hung=%v", desc, pr.code, pr.err, pr.hung)
				return
			}
			if shutdown && r.code < 300 {
				fr.ended = true
			}
		}
	}
	fr.finish()
}

var _ = bytes.Equal
