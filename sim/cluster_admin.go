package sim

import (
	"bytes"
	"encoding/json"
	"fmt"
	"io"
	"net/http"
	"os"
	"path/filepath"
	"sort"
	"strings"
	"time"

	cclient "github.com/openebs/jiva/controller/client"
	crest "github.com/openebs/jiva/controller/rest"
	"github.com/openebs/jiva/types"
	"verif/simrt"
)

// Management operations are issued from a separate "admin" node through the
// real REST clients, so they travel over the simulated network like jivactl /
// the CSI driver would.

type snapRec struct {
	name    string // short name given to the controller
	disk    string // volume-snap-<name>.img
	idle    bool   // no initiator write was in flight when it was taken
	image   []uint64
	wild    []bool
	takenAt time.Duration
	holders map[string]bool // replicas that took it (or received it by rebuild)
	deleted bool
	// lost: a cold start elected a replica that never had this snapshot (it was
	// detached because the snapshot call failed on it, no write followed, so the
	// revision counters tie) and the holders were rebuilt from it. The election
	// rule is C09's subject; C13 says nothing about a snapshot surviving that.
	lost bool
}

// noteHolders records which attached replicas have the snapshot's files.
func (cr *clRun) noteHolders(s *snapRec) {
	if s.holders == nil {
		s.holders = map[string]bool{}
	}
	for _, r := range cr.c.ctrl.ListReplicas() {
		if r.Mode == types.ERR {
			continue
		}
		for _, rn := range cr.c.reps {
			if cr.serves(rn, r.Address) {
				if _, err := readFileTrim(filepath.Join(rn.dir, s.disk+".meta")); err == nil {
					s.holders[rn.addr] = true
				}
			}
		}
	}
}

// electedAtColdStart: addr joined the list directly as RW (Controller.Start).
func (cr *clRun) electedAtColdStart(addr string) {
	var rn *repNode
	for _, x := range cr.c.reps {
		if x.addr == addr {
			rn = x
		}
	}
	if rn == nil {
		return
	}
	cr.res.stat("cold_start_elections", 1)
	cr.coldStarts++
	cr.electedAddrs = append(cr.electedAddrs, addr)
	// who had registered with the SAME revision count as the elected replica (the controller's own
	// registry, read on the goroutine that holds the controller lock): the counters could not tell them apart
	tied := map[string]bool{}
	if reg, ok := cr.c.ctrl.RegisteredReplicas[rn.ip]; ok {
		for ip, r := range cr.c.ctrl.RegisteredReplicas {
			if ip != rn.ip && r.RevCount == reg.RevCount && r.RepState != "rebuilding" {
				tied["tcp://"+ip+":9502"] = true
			}
		}
	}
	cr.electionTies = append(cr.electionTies, tied)
	if cr.abortedWO[addr] {
		cr.halfRebuiltElections = append(cr.halfRebuiltElections, cr.coldStarts)
		cr.res.stat("elected_after_interrupted_rebuild", 1)
	}
	// A volume revert does not advance the revision counter, so a replica that was away
	// for it can tie at the election and win: the volume is then back at the state before
	// the revert (like D19 for snapshots; no listed property promises that a revert survives
	// such an election). Sectors not overwritten since may then hold either value.
	for _, rv := range cr.reverts {
		if rv.lost || rv.holders[addr] {
			continue
		}
		rv.lost = true
		cr.res.stat("revert_lost_at_election_of_non_holder", 1)
		for i := range cr.m.val {
			if i < len(rv.post) && i < len(rv.pre) && cr.m.val[i] == rv.post[i] && rv.pre[i] != rv.post[i] {
				cr.m.cands[i] = append(cr.m.cands[i], rv.pre[i])
				if rv.preWild[i] {
					cr.m.wild[i] = true
				}
			}
		}
	}
	for _, s := range cr.snaps {
		if s.deleted || s.lost || s.holders[addr] {
			continue
		}
		if _, err := readFileTrim(filepath.Join(rn.dir, s.disk+".meta")); err != nil {
			s.lost = true
			cr.res.stat("snapshot_lost_at_election_of_non_holder", 1)
		}
	}
}

func (cr *clRun) issueAdmin(i int, op Op) {
	c := cr.c
	a := &adminOp{idx: i, kind: op.K, at: cr.w.Now()}
	c.mu.Lock()
	a.httpIdx0 = len(c.httpLog)
	c.mu.Unlock()
	cr.admins = append(cr.admins, a)
	cc := cclient.NewControllerClient("http://10.0.0.1:9501")
	var pre map[string]string
	idleBefore := cr.idleIO()
	switch op.K {
	case "resize":
		newSize := cr.m.size + op.A*blk
		if newSize <= 0 {
			newSize = blk
		}
		a.arg = fmt.Sprint(newSize)
		if newSize <= cr.m.size && cr.allRW() && cr.idleIO() && c.punchLag == 0 {
			// only judged when nothing else can touch the directories (a lagging background
			// puncher may still be working through its queue and changes the image files)
			pre = cr.allDigests()
		}
	case "snap":
		a.arg = fmt.Sprintf("u%d", op.A)
	case "delsnap":
		a.arg = cr.pickSnapshot(op.A)
	case "revert":
		a.arg = cr.pickSnapshot(op.A)
	case "rmrep", "seterr", "addrep", "verify":
		a.arg = cr.rep(op.A).addr
		if op.K == "verify" && c.ctrl != nil {
			cr.w.Wait()
			a.verifyWasWO = modeOf(c.ctrl.ListReplicas(), a.arg) == types.WO
			a.verifyPre = cr.chainsOnDisk(cr.rep(op.A))
		}
	}
	a.addsBefore = cr.res.Stats["membership_add"]
	cr.curAdmin = a
	simrt.GoNamed(c.adminN, fmt.Sprintf("admin/op%d", i), func() {
		switch a.kind {
		case "snap":
			_, a.err = cc.Snapshot(a.arg)
		case "delsnap":
			a.err = cc.DeleteSnapshot(a.arg)
		case "revert":
			_, a.err = cc.RevertVolume(a.arg)
		case "rmrep":
			_, a.err = cc.DeleteReplica(a.arg)
		case "addrep":
			_, a.err = cc.CreateReplica(a.arg)
		case "verify":
			a.err = cc.VerifyRebuildReplica(crest.EncodeID(a.arg))
		case "seterr":
			reps, err := cc.ListReplicas()
			a.err = err
			for _, r := range reps {
				if r.Address == a.arg {
					r.Mode = "ERR"
					_, a.err = cc.UpdateReplica(r)
				}
			}
		case "resize":
			v, err := cc.GetVolume()
			if err != nil {
				a.err = err
				break
			}
			body, _ := json.Marshal(map[string]string{"name": v.Name, "size": a.arg})
			resp, err := http.Post(v.Actions["resize"], "application/json", bytes.NewReader(body))
			if err != nil {
				a.err = err
				break
			}
			b, _ := io.ReadAll(resp.Body)
			resp.Body.Close()
			if resp.StatusCode >= 300 {
				a.err = fmt.Errorf("status %d: %s", resp.StatusCode, b)
			}
		}
		a.done = true
		cr.w.Kick()
	})
	// management calls are synchronous for the operator; I/O keeps flowing meanwhile
	if !cr.pump(hangLimit, func() bool { return a.done }) {
		// C14's clause ("no request leaves the process deadlocked"); when a replica fault was injected it is
		// C05's as well ("the failure of a minority ... neither surfaces as an I/O error"): the volume is wedged
		prop := "C14"
		if cr.s.Prop == "C05" && cr.faultsActive {
			prop = "C05"
		}
		cr.viol(prop, "management-request-hung", "admin op %s %s did not return within %v (faults injected so far: %v)", a.kind, a.arg, hangLimit, cr.faultsActive)
		return
	}
	cr.note(a.kind, okstr(a.err))
	cr.judgeAdmin(a, op, pre, idleBefore) // updates the model before any further quiescent-point check runs
	cr.curAdmin = nil
	cr.pump(time.Millisecond, nil)
}

// postResize sends one resize request through the controller's REST API (must run on a node goroutine).
func (cr *clRun) postResize(size int64) error {
	cc := cclient.NewControllerClient("http://10.0.0.1:9501")
	v, err := cc.GetVolume()
	if err != nil {
		return err
	}
	body, _ := json.Marshal(map[string]string{"name": v.Name, "size": fmt.Sprint(size)})
	resp, err := http.Post(v.Actions["resize"], "application/json", bytes.NewReader(body))
	if err != nil {
		return err
	}
	b, _ := io.ReadAll(resp.Body)
	resp.Body.Close()
	if resp.StatusCode >= 300 {
		return fmt.Errorf("status %d: %s", resp.StatusCode, b)
	}
	return nil
}

func (cr *clRun) idleIO() bool {
	for _, o := range cr.ios {
		if !o.done {
			return false
		}
	}
	return true
}

func (cr *clRun) pickSnapshot(a int64) string {
	if len(cr.snaps) == 0 {
		return "nosuchsnap"
	}
	if a%5 == 4 {
		return "nosuchsnap"
	}
	return cr.snaps[int(a)%len(cr.snaps)].name
}

// allDigests: per replica, the persisted size plus names, sizes and data of the
// image files (what a refused resize must not touch; other volume.meta fields
// are updated by background activity such as clone status or checkpoint).
func (cr *clRun) allDigests() map[string]string {
	out := map[string]string{}
	for _, rn := range cr.c.reps {
		if rn.up {
			var vm volMeta
			readJSON(filepath.Join(rn.dir, "volume.meta"), &vm)
			d, _ := dirDigest(rn.dir, func(n string) bool { return !strings.HasSuffix(n, ".img") })
			out[rn.name] = fmt.Sprintf("%d|%s", vm.Size, d)
		}
	}
	return out
}

func (cr *clRun) judgeAdmin(a *adminOp, op Op, pre map[string]string, idleBefore bool) {
	c := cr.c
	if cr.stopped() {
		return
	}
	rf := c.rf
	switch a.kind {
	case "verify":
		// A verifyrebuild request that does not come from the rebuilding replica's own sync (which sends
		// it after the copy): the controller may accept it only if the snapshot chains match ("promotion
		// happens only after the controller has verified that the snapshot chains match"). It cannot know
		// whether the copy has finished, so an accepted request with matching chain NAMES is the harness's
		// doing, not jiva's: the run is not judged any further.
		if a.err != nil || !a.verifyWasWO || c.ctrl == nil || modeOf(c.ctrl.ListReplicas(), a.arg) != types.RW {
			return
		}
		cr.res.stat("out_of_band_verify_accepted", 1)
		post := cr.chainsOnDisk(cr.rep(op.A))
		if a.verifyPre != nil && post != nil && a.verifyPre.same(post) && !post.match() {
			cr.viol("C07", "verify-accepted-with-different-chains", "verifyrebuild of %s was accepted and the replica promoted although its snapshot chain %v (checkpoint %q) does not match the RW replica's %v",
				a.arg, post.wo, post.woCkpt, post.rw)
			return
		}
		cr.res.Abandoned = "out-of-band verifyrebuild accepted (chain names matched, copy possibly unfinished)"
		return
	case "snap":
		if a.err != nil {
			return
		}
		cr.mutations++
		if a.acquired && countMode(a.lastList, types.RW) != rf {
			cr.viol("C13", "snapshot-accepted-without-all-rw", "volume snapshot %s succeeded although %d of RF=%d replicas were RW when it took effect: %v", a.arg, countMode(a.lastList, types.RW), rf, a.lastList)
			return
		}
		rec := &snapRec{name: a.arg, disk: "volume-snap-" + a.arg + ".img", idle: idleBefore && cr.idleIO(), takenAt: cr.w.Now()}
		rec.image = append([]uint64(nil), cr.m.val...)
		rec.wild = append([]bool(nil), cr.m.wild...)
		for s := range rec.wild {
			if len(cr.m.cands[s]) > 0 {
				rec.wild[s] = true // in-doubt at snapshot time: not judged against the model
			}
		}
		cr.snaps = append(cr.snaps, rec)
		cr.noteHolders(rec)
		cr.checkSnapshotsAcrossReplicas("after-snapshot")
	case "resize":
		newSize := int64(0)
		fmt.Sscan(a.arg, &newSize)
		if newSize <= cr.m.size {
			if a.err == nil {
				if a.acquired && a.ctrlSize > 0 && a.ctrlSize < cr.m.size && a.ctrlSize < newSize {
					// The controller had forgotten an acknowledged grow (it takes its size from
					// the replica elected at a cold start): from its point of view this was a
					// grow. That is the defect, not the acceptance of this request.
					clause := "volume-size-went-back"
					for _, rn := range cr.c.reps {
						if cr.absentDuringGrow(rn.addr, a.ctrlSize) {
							clause += "/replica-absent-during-grow"
							break
						}
					}
					cr.viol("C16", clause, "the volume had been grown to %d (acknowledged) but the controller was back at %d when resize to %d arrived", cr.m.size, a.ctrlSize, newSize)
					return
				}
				cr.viol("C16", "shrink-or-equal-resize-accepted", "resize of the volume from %d to %d succeeded", cr.m.size, newSize)
				return
			}
			post := cr.allDigests()
			adds := a.addsBefore
			for n, d := range pre {
				if pd, ok := post[n]; ok && pd != d && cr.idleIO() && !cr.membershipChangedSince(a.at) && cr.allRW() && adds == cr.res.Stats["membership_add"] {
					cr.viol("C16", "refused-resize-changed-replica", "resize %d -> %d was refused but replica %s's directory changed", cr.m.size, newSize, n)
					return
				}
			}
			return
		}
		if a.err != nil {
			// a grow may legitimately fail when replicas are failing; whatever happened, sizes are judged below
			cr.res.stat("resize_failed", 1)
			return
		}
		cr.mutations++
		cr.m.grow(newSize)
		for _, s := range cr.snaps {
			for int64(len(s.image)) < newSize/sect {
				s.image = append(s.image, 0)
				s.wild = append(s.wild, false)
			}
		}
		// replicas that were not attached, or were detached because they failed the
		// resize, keep the old size (known finding D15 if they come back like that)
		a.missed = map[string]bool{}
		for _, rn := range c.reps {
			var vm volMeta
			if err := readJSON(filepath.Join(rn.dir, "volume.meta"), &vm); err != nil || vm.Size < newSize {
				a.missed[rn.addr] = true
			}
		}
		// every replica still listed must have the new size persisted
		for _, r := range c.ctrl.ListReplicas() {
			if r.Mode == types.ERR {
				continue
			}
			for _, rn := range c.reps {
				if cr.serves(rn, r.Address) {
					var vm volMeta
					if err := readJSON(filepath.Join(rn.dir, "volume.meta"), &vm); err == nil && vm.Size != newSize {
						cr.viol("C16", "replica-size-not-updated", "after resize to %d replica %s (%s) persists size %d", newSize, rn.name, r.Mode, vm.Size)
						return
					}
				}
			}
		}
	case "delsnap":
		if a.err != nil {
			// A volume-level delete is not atomic across replicas: a request that fails half-way
			// (a replica dropped out during it) can leave the snapshot marked removed on the
			// replicas it had reached, and their cleaners will then rightly merge it away. From
			// that moment the snapshot is no longer "retained" for the oracles.
			for _, sn := range cr.snaps {
				if sn.name != a.arg || sn.deleted {
					continue
				}
				for _, rn := range cr.c.reps {
					var dm struct{ Removed bool }
					if readJSON(filepath.Join(rn.dir, sn.disk+".meta"), &dm) == nil && dm.Removed {
						sn.deleted = true
						cr.res.stat("failed_delete_left_removed_mark", 1)
						break
					}
				}
			}
			return
		}
		if a.acquired {
			if countMode(a.list, types.RW) != rf {
				cr.viol("C11", "delete-snapshot-accepted-without-all-rw", "deleteSnapshot(%s) accepted with %d of RF=%d RW: %v", a.arg, countMode(a.list, types.RW), rf, a.list)
				return
			}
			if a.checkpoint == "" {
				cr.viol("C11", "delete-snapshot-accepted-without-checkpoint", "deleteSnapshot(%s) accepted with no checkpoint set", a.arg)
				return
			}
			if strings.Contains(a.checkpoint, a.arg) && a.arg != "" {
				cr.viol("C11", "delete-snapshot-accepted-for-checkpoint", "deleteSnapshot(%s) accepted although the checkpoint is %s", a.arg, a.checkpoint)
				return
			}
		}
		for _, s := range cr.snaps {
			if s.name == a.arg {
				s.deleted = true
			}
		}
	case "revert":
		if a.err != nil {
			return
		}
		// the volume now shows the snapshot image
		for _, s := range cr.snaps {
			if s.name == a.arg {
				rv := &revertRec{holders: map[string]bool{}, sent: map[string]bool{}, pre: append([]uint64(nil), cr.m.val...), preWild: append([]bool(nil), cr.m.wild...)}
				cr.c.mu.Lock()
				for _, h := range cr.c.httpLog[a.httpIdx0:] {
					if h.To != nil && strings.Contains(h.URL, "action=revert") && strings.Contains(h.URL, "/v1/replicas/1") {
						rv.sent[cr.addrOf(h.To.Name)] = true
					}
				}
				cr.c.mu.Unlock()
				for _, r := range cr.c.ctrl.ListReplicas() {
					if r.Mode == types.RW {
						rv.holders[r.Address] = true
					}
				}
				cr.m.revertTo(s)
				rv.post = append([]uint64(nil), cr.m.val...)
				cr.reverts = append(cr.reverts, rv)
				cr.reverted = true
				cr.mutations++
				cr.res.stat("volume_revert", 1)
			}
		}
		// snapshots taken after it left the chain
		var keep []*snapRec
		for _, s := range cr.snaps {
			if s.takenAt <= cr.snapTime(a.arg) {
				keep = append(keep, s)
			}
		}
		cr.snaps = keep
	}
}

// absentDuringGrow recognises known finding D15: the replica still has a size
// the volume had before a successful grow that took effect while the replica
// was not attached (not listed, or ERR) - the grow is never propagated to it.
func (cr *clRun) absentDuringGrow(addr string, size int64) bool {
	for _, a := range cr.admins {
		if a.kind != "resize" || a.err != nil || !a.acquired {
			continue
		}
		var ns int64
		fmt.Sscan(a.arg, &ns)
		if ns > size && a.missed[addr] {
			return true
		}
	}
	return false
}

func (cr *clRun) snapTime(name string) time.Duration {
	for _, s := range cr.snaps {
		if s.name == name {
			return s.takenAt
		}
	}
	return 0
}

func (cr *clRun) membershipChangedSince(t time.Duration) bool {
	for _, at := range cr.removedAt {
		if at >= t {
			return true
		}
	}
	return false
}

func (m *volModel) grow(newSize int64) {
	for int64(len(m.val)) < newSize/sect {
		m.val = append(m.val, 0)
		m.cands = append(m.cands, nil)
		m.wild = append(m.wild, false)
	}
	m.size = newSize
}

func (m *volModel) revertTo(s *snapRec) {
	for i := range m.val {
		if i < len(s.image) {
			m.val[i] = s.image[i]
			m.wild[i] = s.wild[i]
		} else {
			m.val[i], m.wild[i] = 0, false
		}
		m.cands[i] = nil
	}
}

// snapshotImage reads snapshot `disk` on a replica through the independent extent walker.
func (cr *clRun) snapshotImage(rn *repNode, disk string) ([]byte, []string, error) {
	chain, _, err := diskChain(rn.dir, disk)
	if err != nil {
		return nil, nil, err
	}
	var vm volMeta
	if err := readJSON(filepath.Join(rn.dir, "volume.meta"), &vm); err != nil {
		return nil, nil, err
	}
	img, err := imageOf(rn.dir, chain, vm.Size)
	return img, chain, err
}

// checkSnapshotsAcrossReplicas (C13, C06 in the cluster): every retained volume
// snapshot has identical content on every RW replica, equal to the register at
// the time it was taken (when nothing was in flight then).
func (cr *clRun) checkSnapshotsAcrossReplicas(when string) {
	c := cr.c
	if cr.stopped() || !cr.lockFree() {
		return
	}
	list := c.ctrl.ListReplicas()
	var rws []*repNode
	for _, r := range list {
		if r.Mode == types.RW {
			for _, rn := range c.reps {
				if cr.serves(rn, r.Address) {
					rws = append(rws, rn)
				}
			}
		}
	}
	sort.Slice(rws, func(i, j int) bool { return rws[i].name < rws[j].name })
	for _, s := range cr.snaps {
		if s.deleted || s.lost {
			continue
		}
		var ref []byte
		var refName string
		for _, rn := range rws {
			img, _, err := cr.snapshotImage(rn, s.disk)
			if err != nil {
				// a replica that joined later may legitimately lack snapshots older than its sync point? No:
				// rebuild copies the whole chain above the checkpoint, and everything below is
				// assumed identical; a missing member is a divergence.
				cr.viol("C13", "snapshot-missing-on-rw-replica", "%s: snapshot %s cannot be read on RW replica %s: %v", when, s.name, rn.name, err)
				return
			}
			cr.compares++
			cr.res.stat("cluster_snapshot_probes", 1)
			s.holders[rn.addr] = true
			if ref == nil {
				ref, refName = img, rn.name
				if s.idle {
					if ok, why, bad := checkWords(img, s.image, s.wild); !ok {
						clause := "snapshot-differs-from-point-in-time-image"
						if w := cr.unalignedWriteWhileWO(rn.addr, bad); w != nil {
							clause += "/unaligned-write-during-rebuild"
						}
						cr.viol("C13", clause, "%s: snapshot %s on %s differs from the acknowledged state when it was taken: %s", when, s.name, rn.name, why)
						return
					}
				}
				continue
			}
			if eq, bad := cr.equalMasked(img, ref); !eq {
				clause := "snapshot-differs-between-replicas"
				for _, x := range []*repNode{rn, rws[0]} {
					if w := cr.unalignedWriteWhileWO(x.addr, bad); w != nil {
						clause += "/unaligned-write-during-rebuild"
						break
					}
				}
				if clause == "snapshot-differs-between-replicas" && cr.unackedWriteOnlyOnWO(bad) != nil {
					clause += "/failed-write-kept-by-rebuilding-replica"
				}
				cr.viol("C13", clause, "%s: snapshot %s differs between %s and %s: %s", when, s.name, refName, rn.name, describeDiff(img, ref))
				return
			}
		}
	}
}

// equalMasked compares two images ignoring sectors that were ever unmapped in
// this run (SCSI UNMAP leaves them indeterminate, possibly per replica).
func (cr *clRun) equalMasked(a, b []byte) (bool, int64) {
	n := len(a)
	if len(b) < n {
		n = len(b)
	}
	for s := 0; (s+1)*sect <= n; s++ {
		if s < len(cr.everWild) && cr.everWild[s] {
			continue
		}
		if !bytes.Equal(a[s*sect:(s+1)*sect], b[s*sect:(s+1)*sect]) {
			return false, int64(s)
		}
	}
	return true, -1
}

// shadowedBlocks: blocks that have data in some file above disk n in the chain.
func shadowedBlocks(dir string, chain []string, n string, size int64) map[int64]bool {
	out := map[int64]bool{}
	for _, name := range chain {
		if name == n {
			break
		}
		f, err := os.Open(filepath.Join(dir, name))
		if err != nil {
			continue
		}
		rs, _ := dataRanges(f, size)
		f.Close()
		for _, r := range rs {
			for b := r[0] / blk; b*blk < r[1]; b++ {
				out[b] = true
			}
		}
	}
	return out
}

func (cr *clRun) diffOnlyInShadowedBlocks(a, b []byte, ra *repNode, cha []string, rb *repNode, chb []string, n string) bool {
	sa := shadowedBlocks(ra.dir, cha, n, int64(len(a)))
	sb := shadowedBlocks(rb.dir, chb, n, int64(len(b)))
	m := len(a)
	if len(b) < m {
		m = len(b)
	}
	for s := 0; (s+1)*sect <= m; s++ {
		if s < len(cr.everWild) && cr.everWild[s] {
			continue
		}
		if !bytes.Equal(a[s*sect:(s+1)*sect], b[s*sect:(s+1)*sect]) {
			bl := int64(s * sect / blk)
			if !sa[bl] || !sb[bl] {
				return false
			}
		}
	}
	return true
}

// sameSuffix: ch ends with exactly the members of suffix, in order.
func sameSuffix(suffix, ch []string) bool {
	if len(suffix) > len(ch) {
		return false
	}
	off := len(ch) - len(suffix)
	for i := range suffix {
		if ch[off+i] != suffix[i] {
			return false
		}
	}
	return true
}

func firstDiffSector(a, b []byte) int64 {
	n := len(a)
	if len(b) < n {
		n = len(b)
	}
	for i := 0; i < n; i++ {
		if a[i] != b[i] {
			return int64(i / sect)
		}
	}
	return int64(n / sect)
}

func checkWords(img []byte, val []uint64, wild []bool) (bool, string, int64) {
	for s := 0; s < len(val) && (s+1)*sect <= len(img); s++ {
		if wild[s] {
			continue
		}
		b := img[s*sect : (s+1)*sect]
		for i := 0; i < sect; i += 8 {
			w := uint64(b[i]) | uint64(b[i+1])<<8 | uint64(b[i+2])<<16 | uint64(b[i+3])<<24 | uint64(b[i+4])<<32 | uint64(b[i+5])<<40 | uint64(b[i+6])<<48 | uint64(b[i+7])<<56
			if w != val[s] {
				return false, fmt.Sprintf("sector %d: got word %#x, expected %#x", s, w, val[s]), int64(s)
			}
		}
	}
	return true, "", -1
}

// ---------------------------------------------------------------- deep cross-replica checks (C07 C10 C13)

func readRevisionFile(dir string) (int64, error) {
	b, err := readFileTrim(filepath.Join(dir, "revision.counter"))
	if err != nil {
		return 0, err
	}
	var v int64
	_, err = fmt.Sscan(b, &v)
	return v, err
}

// deepChecks runs at quiescent points with the controller lock free and no
// initiator I/O in flight. All RW replicas applied exactly the same writes (any
// replica that fails one is detached), so they must be byte-identical - live
// image, every common snapshot, revision counter - and agree with the register.
func (cr *clRun) deepChecks(when string, promoted string) {
	c := cr.c
	if cr.stopped() || !cr.lockFree() || !cr.idleIO() {
		return
	}
	list := c.ctrl.ListReplicas()
	var rws []*repNode
	for _, r := range list {
		if r.Mode == types.RW {
			for _, rn := range c.reps {
				if cr.serves(rn, r.Address) {
					rws = append(rws, rn)
				}
			}
		}
	}
	if len(rws) == 0 {
		return
	}
	sort.Slice(rws, func(i, j int) bool { return rws[i].name < rws[j].name })
	prop := func(def string) string {
		if promoted != "" {
			return "C07"
		}
		return def
	}
	var ref []byte
	var refRev int64
	for i, rn := range rws {
		img, err := cr.replicaImage(rn)
		if err != nil {
			cr.viol(prop("C02"), "rw-replica-unreadable", "%s: replica %s is listed RW but its directory cannot be read: %v", when, rn.name, err)
			return
		}
		cr.compares++
		cr.res.stat("deep_image_checks", 1)
		if int64(len(img)) < cr.m.size {
			clause := "rw-replica-smaller-than-volume"
			if cr.absentDuringGrow(rn.addr, int64(len(img))) {
				clause += "/replica-absent-during-grow"
			}
			cr.viol(prop("C16"), clause, "%s: replica %s image is %d bytes, volume is %d", when, rn.name, len(img), cr.m.size)
			return
		}
		if ok, why, bad := cr.m.check2(img[:cr.m.size], 0, false); !ok {
			clause := "rw-replica-misses-acknowledged-write"
			if promoted == rn.addr {
				clause = "promoted-replica-differs-from-acknowledged-state"
			}
			if w := cr.unalignedWriteWhileWO(rn.addr, bad); w != nil {
				clause += "/unaligned-write-during-rebuild"
				why += fmt.Sprintf(" [block %d was partially written by op %d while %s was WO]", bad/8, w.idx, rn.name)
			} else if w := cr.woMajorityLoss(bad); w != nil {
				clause += "/write-majority-included-rebuilding-replica"
				why += cr.d20Note(w)
			} else if w := cr.electedHalfRebuilt(bad); w != nil {
				clause += "/elected-after-interrupted-rebuild"
				why += cr.d25Note(w)
			} else if w := cr.ackedByMinorityOfRF(bad); w != nil {
				clause += "/write-held-by-minority-of-rf"
				why += cr.d26Note(w)
			} else if w, f, e := cr.electedCountingFailedWrite(bad); w != nil {
				clause += "/elected-replica-counted-failed-write"
				why += cr.d31Note(w, f, e)
			} else if rv := cr.revertSkipped(rn.addr, bad); rv != nil {
				clause += "/rw-replica-not-reverted"
				why += fmt.Sprintf(" [%s is listed RW after a successful volume revert but the revert call was sent only to %v]", rn.name, sortedNames(rv.sent))
			} else if w := cr.punchedThenRebuilt(rn.addr, bad); w != nil {
				clause += "/punched-snapshot-not-resynced"
				why += cr.d28Note(w, rn.name)
			}
			cr.viol(prop("C02"), clause, "%s: replica %s: %s", when, rn.name, why)
			return
		}
		rev, err := readRevisionFile(rn.dir)
		if err != nil {
			cr.viol("C10", "revision-counter-unreadable", "%s: %s: %v", when, rn.name, err)
			return
		}
		if i == 0 {
			ref, refRev = img, rev
			continue
		}
		if eq, bad := cr.equalMasked(img[:cr.m.size], ref[:cr.m.size]); !eq {
			clause := "rw-replicas-differ"
			note := ""
			for _, x := range []*repNode{rn, rws[0]} {
				if w := cr.unalignedWriteWhileWO(x.addr, bad); w != nil {
					clause += "/unaligned-write-during-rebuild"
					break
				}
			}
			if clause == "rw-replicas-differ" {
				if w := cr.unackedWriteOnlyOnWO(bad); w != nil {
					clause += "/failed-write-kept-by-rebuilding-replica"
					note = fmt.Sprintf(" [write %d failed towards the initiator but was applied by %v while rebuilding; a cold start followed]", w.idx, w.woAppliers)
				} else if w := cr.failedWriteRetained(bad, img, ref); w != nil {
					clause += "/failed-write-kept-by-rebuilding-replica"
					note = fmt.Sprintf(" [one side holds the data of write %d, which failed towards the initiator]", w.idx)
				}
			}
			cr.viol(prop("C02"), clause, "%s: RW replicas %s and %s differ: %s%s", when, rws[0].name, rn.name, describeDiff(img, ref), note)
			return
		}
		if rev != refRev {
			cr.viol("C10", "rw-revision-counters-differ", "%s: revision counter of %s is %d, of %s is %d (promoted=%q)", when, rws[0].name, refRev, rn.name, rev, promoted)
			return
		}
	}
	// common snapshots
	chains := map[string][]string{}
	for _, rn := range rws {
		var vm volMeta
		if err := readJSON(filepath.Join(rn.dir, "volume.meta"), &vm); err != nil {
			continue
		}
		ch, _, err := diskChain(rn.dir, vm.Head)
		if err != nil {
			cr.viol("C12", "on-disk-chain-broken", "%s: replica %s: %v", when, rn.name, err)
			return
		}
		chains[rn.name] = ch
	}
	// Automatic snapshots are compared only at a promotion, and only when no
	// snapshot was merged meanwhile: each replica's background cleaner folds
	// automatic snapshots on its own schedule, which legitimately changes them.
	if len(rws) > 1 && promoted != "" && cr.foldsAtWO[promoted] == cr.res.Stats["fold_files"] {
		base := chains[rws[0].name]
		for _, rn := range rws[1:] {
			ch := chains[rn.name]
			in := map[string]bool{}
			for _, n := range ch {
				in[n] = true
			}
			for bi, n := range base[1:] {
				if !in[n] {
					continue
				}
				// Folding a removed snapshot into its parent changes the parent's image.
				// A replica that was away keeps its own files below the checkpoint, so
				// the two may have folded different members: compare n only when
				// everything from n's child downwards has the same names on both sides.
				if !sameSuffix(base[bi:], ch) {
					cr.res.stat("deep_snapshot_compare_skipped_chain_shape", 1)
					continue
				}
				a, _, err1 := cr.snapshotImage(rws[0], n)
				b, _, err2 := cr.snapshotImage(rn, n)
				if err1 != nil || err2 != nil {
					continue
				}
				cr.res.stat("deep_snapshot_compares", 1)
				if eq, bad := cr.equalMasked(a, b); !eq {
					// A replica that has been through a rebuild punches, out of its automatic
					// snapshots, blocks that a newer file of its chain shadows (space
					// reclamation: replica/diff_disk.go fullWriteAt, replica/backup.go preload);
					// a replica that never reloaded does not. Such blocks are invisible in the
					// volume image and in every user-created snapshot (both compared in full
					// elsewhere), so only differences in blocks that are NOT shadowed on either
					// side count here.
					if cr.diffOnlyInShadowedBlocks(a, b, rws[0], chains[rws[0].name], rn, ch, n) {
						cr.res.stat("deep_snapshot_diff_only_in_punchable_blocks", 1)
						continue
					}
					clause := "common-snapshot-differs-between-rw-replicas"
					for _, x := range []*repNode{rn, rws[0]} {
						if w := cr.unalignedWriteWhileWO(x.addr, bad); w != nil {
							clause += "/unaligned-write-during-rebuild"
							break
						}
					}
					if clause == "common-snapshot-differs-between-rw-replicas" && cr.unackedWriteOnlyOnWO(bad) != nil {
						clause += "/failed-write-kept-by-rebuilding-replica"
					}
					cr.viol(prop("C13"), clause, "%s: snapshot %s differs between %s and %s: %s", when, n, rws[0].name, rn.name, describeDiff(a, b))
					return
				}
			}
		}
	}
	// checkpoint agreement (C13)
	if cp := c.ctrl.Checkpoint; cp != "" {
		// (an entry already marked ERR is on its way out: the controller re-computes the checkpoint when it
		// removes it, which the C05 clause failed-replica-never-detached bounds; "as soon as a replica
		// leaves" is judged from the removal on)
		// (judged on the controller's own list: a replica that has just died is still listed RW until the
		// controller notices, which the membership clauses bound)
		if countMode(list, types.RW) != c.rf && countMode(list, types.ERR) == 0 {
			cr.viol("C13", "checkpoint-kept-without-all-rw", "%s: controller checkpoint %s while %d of RF=%d replicas are RW: %v", when, cp, countMode(list, types.RW), c.rf, list)
			return
		}
		for _, rn := range rws {
			var vm volMeta
			readJSON(filepath.Join(rn.dir, "volume.meta"), &vm)
			if vm.Checkpoint != cp {
				cr.viol("C13", "replica-checkpoint-differs", "%s: controller checkpoint %s, replica %s persists %q", when, cp, rn.name, vm.Checkpoint)
				return
			}
			found := false
			for _, n := range chains[rn.name] {
				found = found || n == cp
			}
			if !found && !cr.reverted {
				// (after a volume revert to an older snapshot the recorded checkpoint is
				// dangling by construction - see DESIGN.md, observation D14 - not judged)
				cr.viol("C13", "checkpoint-not-in-chain", "%s: checkpoint %s is not in the chain of %s: %v", when, cp, rn.name, chains[rn.name])
				return
			}
		}
		cr.res.stat("checkpoint_checks", 1)
	}
	cr.checkSnapshotsAcrossReplicas(when)
}

// chainPair: the snapshot chains (file names below the head, newest first) of a rebuilding replica and
// of an RW replica, read from the directories.
type chainPair struct {
	wo, rw []string
	woCkpt string
}

func (p *chainPair) same(q *chainPair) bool {
	return p.woCkpt == q.woCkpt && fmt.Sprint(p.wo) == fmt.Sprint(q.wo) && fmt.Sprint(p.rw) == fmt.Sprint(q.rw)
}

// match: from the rebuilding replica's sync point (its checkpoint; the whole chain if it has none)
// upward both replicas have the same snapshots.
func (p *chainPair) match() bool {
	n := len(p.rw)
	if p.woCkpt != "" {
		found := false
		for i, x := range p.rw {
			if x == p.woCkpt {
				n, found = i+1, true
				break
			}
		}
		if !found {
			return false
		}
	}
	if len(p.wo) < n {
		return false
	}
	for i := 0; i < n; i++ {
		if p.wo[i] != p.rw[i] {
			return false
		}
	}
	return true
}

func (cr *clRun) chainsOnDisk(target *repNode) *chainPair {
	c := cr.c
	if c.ctrl == nil || !target.up {
		return nil
	}
	names := func(rn *repNode) ([]string, string, bool) {
		var vm volMeta
		if readJSON(filepath.Join(rn.dir, "volume.meta"), &vm) != nil || vm.Head == "" {
			return nil, "", false
		}
		ch, _, err := diskChain(rn.dir, vm.Head)
		if err != nil || len(ch) == 0 {
			return nil, "", false
		}
		return ch[1:], vm.Checkpoint, true
	}
	p := &chainPair{}
	var ok bool
	if p.wo, p.woCkpt, ok = names(target); !ok {
		return nil
	}
	for _, r := range c.ctrl.ListReplicas() {
		if r.Mode != types.RW || r.Address == target.addr {
			continue
		}
		for _, rn := range c.reps {
			if cr.serves(rn, r.Address) {
				if p.rw, _, ok = names(rn); ok {
					return p
				}
			}
		}
	}
	return nil
}
