package sim

import (
	"crypto/sha256"
	"encoding/hex"
	"encoding/json"
	"fmt"
	"io"
	"os"
	"path/filepath"
	"sort"
	"strings"
	"syscall"
)

const blk = 4096

// dataRanges returns the allocated [start,end) ranges of a file using
// SEEK_DATA/SEEK_HOLE (independent of the FIEMAP library jiva uses).
func dataRanges(f *os.File, size int64) ([][2]int64, error) {
	var out [][2]int64
	const seekData, seekHole = 3, 4
	off := int64(0)
	for off < size {
		d, err := syscall.Seek(int(f.Fd()), off, seekData)
		if err != nil {
			if err == syscall.ENXIO {
				break
			}
			return nil, err
		}
		h, err := syscall.Seek(int(f.Fd()), d, seekHole)
		if err != nil {
			return nil, err
		}
		if h > size {
			h = size
		}
		if d < h {
			out = append(out, [2]int64{d, h})
		}
		off = h
	}
	return out, nil
}

// diskMeta mirrors the on-disk JSON of <disk>.img.meta (format knowledge, not code).
type diskMeta struct {
	Name            string
	Parent          string
	Removed         bool
	UserCreated     bool
	Created         string
	RevisionCounter int64
}

type volMeta struct {
	Size            int64
	Head            string
	Dirty           bool
	Rebuilding      bool
	Parent          string
	SectorSize      int64
	CloneStatus     string
	Checkpoint      string
	RevisionCounter int64
	UUID            string
}

func readJSON(path string, v interface{}) error {
	b, err := os.ReadFile(path)
	if err != nil {
		return err
	}
	return json.Unmarshal(b, v)
}

// diskChain walks the on-disk metadata from `from` (a disk file name) to the base.
func diskChain(dir, from string) ([]string, map[string]diskMeta, error) {
	var chain []string
	metas := map[string]diskMeta{}
	seen := map[string]bool{}
	cur := from
	for cur != "" {
		if seen[cur] {
			return chain, metas, fmt.Errorf("cycle at %s", cur)
		}
		seen[cur] = true
		var m diskMeta
		if err := readJSON(filepath.Join(dir, cur+".meta"), &m); err != nil {
			return chain, metas, fmt.Errorf("meta of %s: %v", cur, err)
		}
		if _, err := os.Stat(filepath.Join(dir, cur)); err != nil {
			return chain, metas, fmt.Errorf("data file of %s: %v", cur, err)
		}
		chain = append(chain, cur)
		metas[cur] = m
		cur = m.Parent
	}
	return chain, metas, nil
}

// imageOf computes, independently of jiva's read path, the volume image as seen
// from chain[0] downwards: each 4 KiB block comes from the newest file in the
// chain that has an allocated extent there; unallocated everywhere => zeros.
func imageOf(dir string, chain []string, size int64) ([]byte, error) {
	img := make([]byte, size)
	nb := (size + blk - 1) / blk
	filled := make([]bool, nb)
	for _, name := range chain {
		f, err := os.Open(filepath.Join(dir, name))
		if err != nil {
			return nil, err
		}
		st, _ := f.Stat()
		fsz := st.Size()
		if fsz > size {
			fsz = size
		}
		rs, err := dataRanges(f, fsz)
		if err != nil {
			f.Close()
			return nil, err
		}
		for _, r := range rs {
			for b := r[0] / blk; b*blk < r[1]; b++ {
				if b >= nb || filled[b] {
					continue
				}
				lo, hi := b*blk, (b+1)*blk
				if hi > size {
					hi = size
				}
				if _, err := f.ReadAt(img[lo:hi], lo); err != nil && err != io.EOF {
					f.Close()
					return nil, err
				}
				filled[b] = true
			}
		}
		f.Close()
	}
	return img, nil
}

// dirDigest is a content digest of a replica directory (names, sizes, data
// ranges and bytes); used to prove that a refused operation had no effect.
func dirDigest(dir string, ignore func(name string) bool) (string, error) {
	ents, err := os.ReadDir(dir)
	if err != nil {
		return "", err
	}
	var names []string
	for _, e := range ents {
		if ignore != nil && ignore(e.Name()) {
			continue
		}
		names = append(names, e.Name())
	}
	sort.Strings(names)
	h := sha256.New()
	for _, n := range names {
		p := filepath.Join(dir, n)
		st, err := os.Stat(p)
		if err != nil {
			return "", err
		}
		fmt.Fprintf(h, "%s %d\n", n, st.Size())
		if st.IsDir() {
			continue
		}
		f, err := os.Open(p)
		if err != nil {
			return "", err
		}
		if strings.HasSuffix(n, ".img") {
			rs, err := dataRanges(f, st.Size())
			if err != nil {
				f.Close()
				return "", err
			}
			buf := make([]byte, blk)
			for _, r := range rs {
				for off := r[0]; off < r[1]; off += blk {
					nn, _ := f.ReadAt(buf, off)
					allZero := true
					for _, c := range buf[:nn] {
						if c != 0 {
							allZero = false
							break
						}
					}
					if !allZero { // an allocated all-zero block is indistinguishable from a hole for readers
						fmt.Fprintf(h, "@%d:", off)
						h.Write(buf[:nn])
					}
				}
			}
		} else {
			io.Copy(h, f)
		}
		f.Close()
	}
	return hex.EncodeToString(h.Sum(nil))[:24], nil
}

// copyDirSparse copies a replica directory preserving holes and hard links.
func copyDirSparse(src, dst string) error {
	if err := os.MkdirAll(dst, 0700); err != nil {
		return err
	}
	ents, err := os.ReadDir(src)
	if err != nil {
		return err
	}
	inodes := map[uint64]string{}
	for _, e := range ents {
		sp, dp := filepath.Join(src, e.Name()), filepath.Join(dst, e.Name())
		st, err := os.Lstat(sp)
		if err != nil {
			return err
		}
		if !st.Mode().IsRegular() {
			continue
		}
		ino := st.Sys().(*syscall.Stat_t).Ino
		if prev, ok := inodes[ino]; ok {
			if err := os.Link(prev, dp); err != nil {
				return err
			}
			continue
		}
		inodes[ino] = dp
		in, err := os.Open(sp)
		if err != nil {
			return err
		}
		out, err := os.OpenFile(dp, os.O_CREATE|os.O_TRUNC|os.O_WRONLY, st.Mode().Perm())
		if err != nil {
			in.Close()
			return err
		}
		if err := out.Truncate(st.Size()); err != nil {
			in.Close()
			out.Close()
			return err
		}
		rs, err := dataRanges(in, st.Size())
		if err == nil {
			buf := make([]byte, 64*1024)
			for _, r := range rs {
				for off := r[0]; off < r[1]; {
					n := int64(len(buf))
					if off+n > r[1] {
						n = r[1] - off
					}
					m, rerr := in.ReadAt(buf[:n], off)
					if m > 0 {
						if _, werr := out.WriteAt(buf[:m], off); werr != nil {
							err = werr
							break
						}
					}
					if rerr != nil && rerr != io.EOF {
						err = rerr
						break
					}
					if m == 0 {
						break
					}
					off += int64(m)
				}
			}
		}
		in.Close()
		out.Close()
		if err != nil {
			return err
		}
	}
	return nil
}

// nullFDsUnder redirects every open fd of this process that points into dir to
// /dev/null (process-death semantics for zombie goroutines of a killed node).
func nullFDsUnder(dir string) int {
	ents, err := os.ReadDir("/proc/self/fd")
	if err != nil {
		return 0
	}
	devnull, err := syscall.Open("/dev/null", syscall.O_RDWR, 0)
	if err != nil {
		return 0
	}
	defer syscall.Close(devnull)
	n := 0
	prefix := strings.TrimRight(dir, "/") + "/"
	for _, e := range ents {
		var fd int
		if _, err := fmt.Sscanf(e.Name(), "%d", &fd); err != nil || fd == devnull {
			continue
		}
		target, err := os.Readlink("/proc/self/fd/" + e.Name())
		if err != nil {
			continue
		}
		target = strings.TrimSuffix(target, " (deleted)")
		if strings.HasPrefix(target, prefix) || target == strings.TrimRight(dir, "/") {
			if err := syscall.Dup3(devnull, fd, 0); err == nil {
				n++
			}
		}
	}
	return n
}

func readFileTrim(p string) (string, error) {
	b, err := os.ReadFile(p)
	if err != nil {
		return "", err
	}
	return strings.Trim(string(b), "\x00 \n"), nil
}

func sparsePunch(f *os.File, off, n int64) error {
	const keepSize, punchHole = 1, 2
	return syscall.Fallocate(int(f.Fd()), keepSize|punchHole, off, n)
}
