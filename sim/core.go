// Package sim is the deterministic-simulation harness for openebs/jiva. It is
// compiled (as a test binary, because testing/synctest needs a *testing.T)
// against an instrumented scratch copy of /repo's working tree.
package sim

import (
	"encoding/json"
	"fmt"
	"hash/fnv"
	"os"
	"runtime"
	"sort"
	"strings"
	"sync"
	"testing"
	"testing/synctest"
	"time"
)

// ---------------------------------------------------------------- PRNG

// Rand is a splitmix64 stream; the only sequential PRNG in the harness, used
// for *generation* (before the bubble starts). Inside a run every choice is a
// keyed hash (simrt.World.Rand).
type Rand struct{ s uint64 }

func NewRand(seed uint64) *Rand { return &Rand{seed} }
func (r *Rand) U64() uint64 {
	r.s += 0x9e3779b97f4a7c15
	z := r.s
	z = (z ^ (z >> 30)) * 0xbf58476d1ce4e5b9
	z = (z ^ (z >> 27)) * 0x94d049bb133111eb
	return z ^ (z >> 31)
}
func (r *Rand) Intn(n int) int {
	if n <= 0 {
		return 0
	}
	return int(r.U64() % uint64(n))
}
func (r *Rand) Bool(pct int) bool { return r.Intn(100) < pct }
func (r *Rand) Perm(n int) []int {
	p := make([]int, n)
	for i := range p {
		p[i] = i
	}
	for i := n - 1; i > 0; i-- {
		j := r.Intn(i + 1)
		p[i], p[j] = p[j], p[i]
	}
	return p
}
func (r *Rand) Range(lo, hi int) int { // inclusive
	if hi <= lo {
		return lo
	}
	return lo + r.Intn(hi-lo+1)
}

// Mix derives a sub-seed.
func Mix(seed uint64, parts ...interface{}) uint64 {
	h := fnv.New64a()
	fmt.Fprint(h, seed)
	for _, p := range parts {
		fmt.Fprint(h, "|", p)
	}
	return NewRand(h.Sum64()).U64()
}

// ---------------------------------------------------------------- scripts

// Op is one scripted step: a client operation, a management operation, a fault
// or a scheduling decision. Fields are generic so that the shrinker can work on
// any engine's scripts.
type Op struct {
	K string `json:"k"`
	A int64  `json:"a,omitempty"`
	B int64  `json:"b,omitempty"`
	C int64  `json:"c,omitempty"`
	D int64  `json:"d,omitempty"`
	E int64  `json:"e,omitempty"`
	S string `json:"s,omitempty"`
	F bool   `json:"f,omitempty"`
}

func (o Op) String() string {
	s := o.K
	if o.A != 0 || o.B != 0 || o.C != 0 || o.D != 0 {
		s += fmt.Sprintf("(%d,%d,%d,%d)", o.A, o.B, o.C, o.D)
	}
	if o.S != "" {
		s += "[" + o.S + "]"
	}
	if o.F {
		s += "!"
	}
	return s
}

// Script is a complete, explicit, replayable description of one run.
type Script struct {
	Engine string           `json:"engine"`
	Prop   string           `json:"property"`
	Seed   uint64           `json:"seed"`
	Cfg    map[string]int64 `json:"cfg"`
	Ops    []Op             `json:"ops"`
}

func (s *Script) Clone() *Script {
	c := *s
	c.Cfg = map[string]int64{}
	for k, v := range s.Cfg {
		c.Cfg[k] = v
	}
	c.Ops = append([]Op(nil), s.Ops...)
	return &c
}

func (s *Script) Shape() string {
	var b strings.Builder
	for _, o := range s.Ops {
		b.WriteString(o.K)
		b.WriteByte(' ')
	}
	return b.String()
}

// Violation is a property violation found by an oracle.
type Violation struct {
	Prop   string `json:"property"`
	Clause string `json:"clause"` // stable oracle-clause id, used for shrinking and known-finding matching
	Msg    string `json:"msg"`
	Step   int    `json:"step"`
}

func (v *Violation) Sig() string { return v.Prop + "/" + v.Clause }

// Result of one run.
type Result struct {
	V          *Violation       `json:"violation,omitempty"`
	Other      string           `json:"other,omitempty"` // violation of a clause owned by another property (run aborted)
	Abandoned  string           `json:"abandoned,omitempty"` // the harness itself took the system outside what the properties cover; the run is not judged further
	Infra      string           `json:"infra,omitempty"` // harness trouble (never a violation)
	Stats      map[string]int64 `json:"stats"`
	Shape      uint64           `json:"shape"`
	Nontrivial bool             `json:"nontrivial"`
	SimNanos   int64            `json:"sim_ns"`
	Steps      int              `json:"steps"`
	TraceHash  uint64           `json:"trace_hash"`
	Trace      []string         `json:"-"`
}

var statMu sync.Mutex

func (r *Result) stat(k string, n int64) {
	statMu.Lock()
	defer statMu.Unlock()
	if r.Stats == nil {
		r.Stats = map[string]int64{}
	}
	r.Stats[k] += n
}

// Engine is implemented by repsim, clustersim, ...
type Engine interface {
	Name() string
	// Generate builds the script for run index i (pure function of seed).
	Generate(rng *Rand, prop, tier string) *Script
	// Run executes a script inside a fresh bubble and evaluates the oracles.
	Run(t *testing.T, s *Script) *Result
}

var engines = map[string]Engine{}

func register(e Engine) { engines[e.Name()] = e }

// propEngine maps a property to its engine(s).
var propEngines = map[string][]string{}

// ---------------------------------------------------------------- bubble

// inBubble runs f inside a synctest bubble and converts the end-of-bubble
// "blocked goroutines remain" panic (expected: jiva's background loops never
// stop) into a normal return.
func inBubble(t *testing.T, f func()) (infra string) {
	defer func() {
		if r := recover(); r != nil {
			msg := fmt.Sprint(r)
			if strings.Contains(msg, "blocked goroutines remain") || strings.Contains(msg, "deadlock: main bubble goroutine has exited") {
				return
			}
			infra = "bubble panic: " + msg
		}
	}()
	synctest.Test(t, func(t *testing.T) {
		defer func() {
			if r := recover(); r != nil {
				buf := make([]byte, 4096)
				buf = buf[:runtime.Stack(buf, false)]
				infra = fmt.Sprintf("harness panic: %v\n%s", r, buf)
			}
		}()
		f()
	})
	return infra
}

// scratchRoot is where run directories live (ext4, outside /repo and /verif).
func scratchRoot() string {
	if d := os.Getenv("VERIF_SCRATCH"); d != "" {
		return d
	}
	return os.TempDir()
}

var runCounter int

func newRunDir() string {
	runCounter++
	d := fmt.Sprintf("%s/run-%d-%d", scratchRoot(), os.Getpid(), runCounter)
	os.RemoveAll(d)
	if err := os.MkdirAll(d, 0700); err != nil {
		panic(err)
	}
	return d
}

// hashTrace hashes the event log as a multiset per timestamp: lines appended by
// different goroutines inside one quiescent step may be recorded in either
// order, so the log is sorted (timestamp prefix first) before hashing.
func hashTrace(ss []string) uint64 {
	c := append([]string(nil), ss...)
	sort.Strings(c)
	if f := os.Getenv("VERIF_TRACE_FILE"); f != "" {
		os.WriteFile(f, []byte(strings.Join(ss, "\n")+"\n"), 0644) // in recording order, for diffing two processes
	}
	return hashStrings(c)
}

func hashStrings(ss []string) uint64 {
	h := fnv.New64a()
	for _, s := range ss {
		h.Write([]byte(s))
		h.Write([]byte{0})
	}
	return h.Sum64()
}

func sortedStatKeys(m map[string]int64) []string {
	ks := make([]string, 0, len(m))
	for k := range m {
		ks = append(ks, k)
	}
	sort.Strings(ks)
	return ks
}

func mustJSON(v interface{}) string {
	b, err := json.Marshal(v)
	if err != nil {
		panic(err)
	}
	return string(b)
}

var wallStart = time.Now()
