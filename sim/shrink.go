package sim

import (
	"testing"
	"time"
)

// shrink minimises a failing script: delta-debugging over the op list, then
// argument simplification, while the same violation signature (property +
// oracle clause) persists. Every candidate is a full fresh run.
func shrink(t *testing.T, e Engine, s *Script, sig string, budget time.Duration) (*Script, *Result, int) {
	deadline := time.Now().Add(budget)
	tries := 0
	fails := func(c *Script) *Result {
		tries++
		r := e.Run(t, c)
		if r.V != nil && r.V.Sig() == sig {
			return r
		}
		return nil
	}
	best := s.Clone()
	var bestRes *Result
	// 1. truncate after the violating step
	// 2. ddmin
	n := 2
	for len(best.Ops) >= 2 && time.Now().Before(deadline) {
		chunk := (len(best.Ops) + n - 1) / n
		reduced := false
		for start := 0; start < len(best.Ops) && time.Now().Before(deadline); start += chunk {
			end := start + chunk
			if end > len(best.Ops) {
				end = len(best.Ops)
			}
			c := best.Clone()
			c.Ops = append(append([]Op(nil), best.Ops[:start]...), best.Ops[end:]...)
			if r := fails(c); r != nil {
				best, bestRes = c, r
				if n > 2 {
					n--
				}
				reduced = true
				break
			}
		}
		if !reduced {
			if chunk == 1 {
				break
			}
			n *= 2
			if n > len(best.Ops) {
				n = len(best.Ops)
			}
		}
	}
	// 3. simplify integer arguments and cfg values
	for pass := 0; pass < 2 && time.Now().Before(deadline); pass++ {
		for i := range best.Ops {
			for f := 0; f < 4; f++ {
				get := func(o *Op) *int64 { return [...]*int64{&o.A, &o.B, &o.C, &o.D}[f] }
				cur := *get(&best.Ops[i])
				for _, cand := range []int64{0, 1, cur / 2, cur - 1} {
					if cand == cur || cand < 0 || !time.Now().Before(deadline) {
						continue
					}
					c := best.Clone()
					*get(&c.Ops[i]) = cand
					if r := fails(c); r != nil {
						best, bestRes = c, r
						break
					}
				}
			}
			if best.Ops[i].F && time.Now().Before(deadline) {
				c := best.Clone()
				c.Ops[i].F = false
				if r := fails(c); r != nil {
					best, bestRes = c, r
				}
			}
		}
	}
	if bestRes == nil {
		bestRes = fails(best)
	}
	return best, bestRes, tries
}
