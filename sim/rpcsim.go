package sim

import (
	"bytes"
	"encoding/binary"
	"fmt"
	"io"
	"math"
	"net"
	"os"
	"reflect"
	"strings"
	"testing"
	"testing/synctest"
	"time"
	"unsafe"

	"github.com/openebs/jiva/rpc"
	"verif/simrt"
)

// rpcsim (C15): the real rpc.Client over a simulated TCP connection against a
// scripted peer with its own frame parser. The script decides which pending
// request is answered when and how (ok / error / EOF / unknown seq / duplicate),
// and injects stalls, resets, half-closes, torn and corrupt frames. Separately
// it round-trips frames through rpc.Wire over a connection that delivers bytes
// in arbitrary chunk sizes, and runs real client against real rpc.Server.

type rpcsim struct{}

func (rpcsim) Name() string { return "rpcsim" }

func init() {
	register(rpcsim{})
	propEngines["C15"] = append(propEngines["C15"], "rpcsim")
}

// wire format knowledge (independent of rpc/wire.go): little endian
// u16 magic | u32 seq | u32 type | i64 offset | i64 size | u32 datalen | data
const (
	fMagic    = 0x1b03
	tRead     = 0
	tWrite    = 1
	tResponse = 2
	tError    = 3
	tEOF      = 4
	tPing     = 6
	tSync     = 8
	tUnmap    = 9
	hdrLen    = 2 + 4 + 4 + 8 + 8 + 4
)

type frame struct {
	Magic  uint16
	Seq    uint32
	Type   uint32
	Offset int64
	Size   int64
	Data   []byte
}

func (f *frame) encode() []byte {
	b := make([]byte, hdrLen+len(f.Data))
	binary.LittleEndian.PutUint16(b[0:], f.Magic)
	binary.LittleEndian.PutUint32(b[2:], f.Seq)
	binary.LittleEndian.PutUint32(b[6:], f.Type)
	binary.LittleEndian.PutUint64(b[10:], uint64(f.Offset))
	binary.LittleEndian.PutUint64(b[18:], uint64(f.Size))
	binary.LittleEndian.PutUint32(b[26:], uint32(len(f.Data)))
	copy(b[hdrLen:], f.Data)
	return b
}

func readFrame(r io.Reader) (*frame, error) {
	h := make([]byte, hdrLen)
	if _, err := io.ReadFull(r, h); err != nil {
		return nil, err
	}
	f := &frame{
		Magic:  binary.LittleEndian.Uint16(h[0:]),
		Seq:    binary.LittleEndian.Uint32(h[2:]),
		Type:   binary.LittleEndian.Uint32(h[6:]),
		Offset: int64(binary.LittleEndian.Uint64(h[10:])),
		Size:   int64(binary.LittleEndian.Uint64(h[18:])),
	}
	n := binary.LittleEndian.Uint32(h[26:])
	if n > 1<<24 {
		return f, fmt.Errorf("absurd data length %d", n)
	}
	if n > 0 {
		f.Data = make([]byte, n)
		if _, err := io.ReadFull(r, f.Data); err != nil {
			return f, err
		}
	}
	return f, nil
}

func pattern(off int64, n int, salt byte) []byte {
	b := make([]byte, n)
	for i := range b {
		b[i] = byte((off+int64(i))*31>>3) ^ salt ^ byte(i)
	}
	return b
}

func (rpcsim) Generate(rng *Rand, prop, tier string) *Script {
	s := &Script{Engine: "rpcsim", Prop: prop, Cfg: map[string]int64{}}
	mode := rng.Intn(10)
	switch {
	case mode < 2:
		s.Cfg["mode"] = 1 // codec round trip
		n := rng.Range(3, 30)
		for i := 0; i < n; i++ {
			op := Op{K: "frame", A: int64(rng.Intn(10)), B: int64(rng.U64() >> 1), C: int64(rng.Intn(70000)), D: int64(rng.Intn(1 << 20))}
			switch rng.Intn(6) {
			case 0:
				op.C = 0
			case 1:
				op.C = int64(rng.Range(8090, 8100)) // around the bufio size
			case 2:
				op.B = -int64(rng.U64() >> 1)
			}
			s.Ops = append(s.Ops, op)
		}
		s.Cfg["chunk"] = int64(rng.Intn(6)) // 0: whole, else chunk policy
		return s
	case mode < 4:
		s.Cfg["mode"] = 2 // real client <-> real server, recording data processor
	default:
		s.Cfg["mode"] = 0 // scripted peer
	}
	faulty := rng.Bool(60) && s.Cfg["mode"] == 0
	if rng.Bool(25) {
		// a long-lived connection: the 32-bit sequence number wraps during this run
		s.Cfg["seqback"] = int64(rng.Range(1, 40))
	}
	if rng.Bool(50) {
		// receivers dawdle (a few simulated nanoseconds after a channel receive) while the sender goes on
		s.Cfg["seljit"] = int64(rng.Range(1, 5))
	}
	nops := rng.Range(4, 60)
	outstanding := 0
	maxOut := rng.Range(1, 16)
	faultAt := -1
	if faulty {
		faultAt = rng.Intn(nops)
	}
	for i := 0; i < nops; i++ {
		if i == faultAt {
			s.Ops = append(s.Ops, Op{K: "fault", A: int64(rng.Intn(7))})
			if rng.Bool(50) {
				// requests issued well after the failure
				s.Ops = append(s.Ops, Op{K: "adv", A: int64(rng.Range(6000, 9000))})
				for k, m := 0, rng.Range(1, 3); k < m; k++ {
					typ := []int64{tRead, tWrite, tSync, tUnmap, tPing}[rng.Intn(5)]
					s.Ops = append(s.Ops, Op{K: "op", A: typ, B: int64(rng.Range(1, 16)) * 512})
					s.Ops = append(s.Ops, Op{K: "adv", A: int64(rng.Range(3100, 4000))})
				}
			}
			continue
		}
		r := rng.Intn(100)
		switch {
		case r < 45 && outstanding < maxOut:
			typ := []int64{tRead, tWrite, tRead, tWrite, tSync, tUnmap, tPing}[rng.Intn(7)]
			s.Ops = append(s.Ops, Op{K: "op", A: typ, B: int64(rng.Range(1, 16)) * 512})
			outstanding++
		case r < 85 && s.Cfg["mode"] == 0:
			kind := int64(0)
			if rng.Bool(25) {
				kind = int64(rng.Range(1, 5))
			}
			s.Ops = append(s.Ops, Op{K: "reply", A: int64(rng.Intn(16)), B: kind})
			if outstanding > 0 && kind < 3 {
				outstanding--
			}
		case r < 91 && s.Cfg["mode"] == 0 && outstanding > 1:
			// several replies leave the peer in ONE segment: the client's reader decodes the
			// next frame while the previous reply is still being handed to its caller
			n := rng.Range(2, 6)
			s.Ops = append(s.Ops, Op{K: "burst", A: int64(n), B: int64(rng.Intn(16)), F: rng.Bool(20)})
			outstanding -= n
			if outstanding < 0 {
				outstanding = 0
			}
		default:
			s.Ops = append(s.Ops, Op{K: "adv", A: int64(rng.Range(1, 3000))})
			if rng.Bool(5) {
				s.Ops[len(s.Ops)-1].A = int64(rng.Range(25000, 45000))
			}
		}
	}
	return s
}

type rpcOp struct {
	idx     int
	typ     int64
	off     int64
	size    int
	issued  time.Duration
	done    bool
	doneAt  time.Duration
	n       int
	err     error
	buf     []byte
	wdata   []byte
	expect  string // "", "ok", "error", "eof"
	checked bool
}

type rpcRun struct {
	s          *Script
	res        *Result
	w          *simrt.World
	client     *rpc.Client
	closeCh    chan struct{}
	srvConn    *simrt.TCPConn
	ops        []*rpcOp
	pending    []*frame // requests seen by the peer, unanswered
	arrived    int      // number of request frames the peer has parsed
	reqOp      map[*frame]*rpcOp
	peerErr    error
	blackhole  bool // a direction is held: replies may never arrive, only deadlines detect it
	poisoned   bool
	poisonedAt time.Duration
	step       int
	shape      []string
	batch      *bytes.Buffer // burst: frames collected for a single write
}

func (rr *rpcRun) viol(clause, format string, a ...interface{}) {
	if rr.res.V != nil {
		return
	}
	rr.res.V = &Violation{Prop: "C15", Clause: clause, Msg: fmt.Sprintf(format, a...), Step: rr.step}
}

func (rpcsim) Run(t *testing.T, s *Script) *Result {
	res := &Result{Stats: map[string]int64{}}
	infra := inBubble(t, func() {
		rr := &rpcRun{s: s, res: res}
		switch s.Cfg["mode"] {
		case 1:
			rr.codec()
		default:
			rr.run()
		}
	})
	if infra != "" && res.Infra == "" {
		res.Infra = infra
	}
	return res
}

// ---------------------------------------------------------------- codec round trip

type chunkConn struct {
	buf    bytes.Buffer
	policy int64
	n      int
	seed   uint64
}

func (c *chunkConn) Read(b []byte) (int, error) {
	if c.buf.Len() == 0 {
		return 0, io.EOF
	}
	c.n++
	k := len(b)
	switch c.policy {
	case 1:
		k = 1
	case 2:
		k = 7
	case 3:
		k = int(simrt.Hash64(c.seed, fmt.Sprint("chunk", c.n))%37) + 1
	case 4:
		k = 4096
	case 5:
		k = int(simrt.Hash64(c.seed, fmt.Sprint("chunk", c.n))%9000) + 1
	}
	if k > len(b) {
		k = len(b)
	}
	return c.buf.Read(b[:k])
}
func (c *chunkConn) Write(b []byte) (int, error)      { return c.buf.Write(b) }
func (c *chunkConn) Close() error                     { return nil }
func (c *chunkConn) LocalAddr() net.Addr              { return &net.TCPAddr{} }
func (c *chunkConn) RemoteAddr() net.Addr             { return &net.TCPAddr{} }
func (c *chunkConn) SetDeadline(time.Time) error      { return nil }
func (c *chunkConn) SetReadDeadline(time.Time) error  { return nil }
func (c *chunkConn) SetWriteDeadline(time.Time) error { return nil }

func (rr *rpcRun) codec() {
	s := rr.s
	cc := &chunkConn{policy: s.Cfg["chunk"], seed: s.Seed}
	wr := rpc.NewWire(cc)
	var sent []*rpc.Message
	for i, op := range s.Ops {
		m := &rpc.Message{MagicVersion: rpc.MagicVersion, Seq: uint32(i*7919 + 1), Type: uint32(op.A), Offset: op.B, Size: op.D}
		if op.C > 0 {
			m.Data = pattern(op.B, int(op.C), byte(i))
		}
		if err := wr.Write(m); err != nil {
			rr.viol("codec-write-failed", "Wire.Write of frame %d failed: %v", i, err)
			return
		}
		sent = append(sent, m)
	}
	// independent decode of the byte stream must agree with what was sent
	raw := append([]byte(nil), cc.buf.Bytes()...)
	rd := bytes.NewReader(raw)
	for i, m := range sent {
		f, err := readFrame(rd)
		if err != nil {
			rr.viol("codec-stream-malformed", "frame %d: independent parser failed: %v", i, err)
			return
		}
		if f.Magic != fMagic || f.Seq != m.Seq || f.Type != m.Type || f.Offset != m.Offset || f.Size != m.Size || !bytes.Equal(f.Data, m.Data) {
			rr.viol("codec-encoding-differs", "frame %d: on the wire %+v, sent %+v", i, *f, *m)
			return
		}
	}
	rw := rpc.NewWire(cc)
	for i, m := range sent {
		got, err := rw.Read()
		if err != nil {
			rr.viol("codec-read-failed", "Wire.Read of frame %d (chunk policy %d) failed: %v", i, cc.policy, err)
			return
		}
		if got.MagicVersion != m.MagicVersion || got.Seq != m.Seq || got.Type != m.Type || got.Offset != m.Offset || got.Size != m.Size || !bytes.Equal(got.Data, m.Data) {
			rr.viol("codec-roundtrip-differs", "frame %d (chunk policy %d): read back seq=%d type=%d off=%d size=%d len=%d, sent seq=%d type=%d off=%d size=%d len=%d",
				i, cc.policy, got.Seq, got.Type, got.Offset, got.Size, len(got.Data), m.Seq, m.Type, m.Offset, m.Size, len(m.Data))
			return
		}
	}
	rr.res.stat("codec_frames", int64(len(sent)))
	rr.res.Nontrivial = len(sent) > 0
	rr.res.Shape = hashStrings([]string{"codec", fmt.Sprint(cc.policy), fmt.Sprint(len(sent))})
}

// ---------------------------------------------------------------- client vs peer

type recProc struct {
	rr   *rpcRun
	log  []string
	data map[int64][]byte
}

func (p *recProc) ReadAt(b []byte, off int64) (int, error) {
	copy(b, pattern(off, len(b), 0x5a))
	p.log = append(p.log, fmt.Sprintf("r %d %d", off, len(b)))
	return len(b), nil
}
func (p *recProc) WriteAt(b []byte, off int64) (int, error) {
	p.data[off] = append([]byte(nil), b...)
	p.log = append(p.log, fmt.Sprintf("w %d %d", off, len(b)))
	return len(b), nil
}
func (p *recProc) Sync() (int, error) { p.log = append(p.log, "sync"); return 0, nil }
func (p *recProc) Unmap(o, l int64) (int, error) {
	p.log = append(p.log, fmt.Sprintf("unmap %d %d", o, l))
	return 0, nil
}
func (p *recProc) Close() error        { return nil }
func (p *recProc) PingResponse() error { p.log = append(p.log, "ping"); return nil }

func (rr *rpcRun) run() {
	s := rr.s
	w := simrt.NewWorld(s.Seed, synctest.Wait)
	w.StrictLocks = os.Getenv("VERIF_LOOSE_LOCKS") == ""
	w.SelectJitter = int(s.Cfg["seljit"])
	defer w.Close()
	rr.w = w
	w.TraceOn = os.Getenv("VERIF_TRACE") != ""
	cn := w.AddNode("ctrl", "10.0.0.1")
	pn := w.AddNode("peer", "10.0.0.2")
	realServer := s.Cfg["mode"] == 2
	var proc *recProc
	// peer side
	ready := false
	simrt.GoNamed(pn, "peer/main", func() {
		l, err := simrt.ListenTCP("tcp", &net.TCPAddr{IP: net.ParseIP("10.0.0.2"), Port: 9503})
		if err != nil {
			rr.res.Infra = "listen: " + err.Error()
			return
		}
		ready = true
		w.Kick()
		c, err := l.AcceptTCP()
		if err != nil {
			return
		}
		rr.srvConn = c
		if realServer {
			proc = &recProc{rr: rr, data: map[int64][]byte{}}
			srv := rpc.NewServer(c, proc)
			srv.Handle()
			return
		}
		for {
			f, err := readFrame(c)
			if err != nil {
				rr.peerErr = err
				w.Kick()
				return
			}
			// one operation is issued per step and the stream is FIFO, so the k-th
			// request frame belongs to the k-th issued operation
			if rr.arrived < len(rr.ops) {
				o := rr.ops[rr.arrived]
				rr.reqOp[f] = o
				bad := int64(f.Type) != o.typ || f.Magic != fMagic
				if o.typ == tRead || o.typ == tWrite || o.typ == tUnmap {
					bad = bad || f.Offset != o.off
				}
				if o.typ == tRead || o.typ == tUnmap {
					bad = bad || f.Size != int64(o.size)
				}
				if o.typ == tWrite {
					bad = bad || !bytes.Equal(f.Data, o.wdata)
				}
				if bad {
					rr.viol("request-frame-mangled", "request %d on the wire (type %d off %d size %d len %d) does not match operation %d (type %d off %d size %d)",
						rr.arrived, f.Type, f.Offset, f.Size, len(f.Data), o.idx, o.typ, o.off, o.size)
				}
			}
			rr.arrived++
			rr.pending = append(rr.pending, f)
			w.Kick()
		}
	})
	w.Pump(func() bool { return ready }, time.Minute, nil)
	rr.closeCh = make(chan struct{}, 64)
	rr.reqOp = map[*frame]*rpcOp{}
	okc := false
	simrt.GoNamed(cn, "ctrl/main", func() {
		conn, err := simrt.Dial("tcp", "10.0.0.2:9503")
		if err != nil {
			rr.res.Infra = "dial: " + err.Error()
			return
		}
		rr.client = rpc.NewClient(conn, rr.closeCh)
		if back := s.Cfg["seqback"]; back > 0 {
			// tuning knob: start the client's sequence counter just below 2^32 (a connection
			// that has carried ~4e9 requests). Unexported field, set before the first request.
			if f := reflect.ValueOf(rr.client).Elem().FieldByName("seq"); f.IsValid() && f.Kind() == reflect.Uint32 {
				*(*uint32)(unsafe.Pointer(f.UnsafeAddr())) = uint32(math.MaxUint32 - uint32(back) + 1)
				rr.res.stat("seq_wrap_runs", 1)
			}
		}
		okc = true
		w.Kick()
	})
	w.Pump(func() bool { return okc && rr.srvConn != nil }, time.Minute, nil)
	if rr.client == nil || rr.res.Infra != "" {
		if rr.res.Infra == "" {
			rr.res.Infra = "client setup failed"
		}
		return
	}
	settle := func(d time.Duration) { w.Pump(nil, w.Now()+d, nil) }

	for i, op := range s.Ops {
		if rr.res.V != nil {
			break
		}
		rr.step = i
		switch op.K {
		case "op":
			o := &rpcOp{idx: len(rr.ops), typ: op.A, off: int64(len(rr.ops)+1) * 1 << 20, size: int(op.B), issued: w.Now()}
			rr.ops = append(rr.ops, o)
			rr.shape = append(rr.shape, fmt.Sprintf("op%d", op.A))
			simrt.GoNamed(cn, fmt.Sprintf("ctrl/op%d", o.idx), func() {
				switch o.typ {
				case tRead:
					o.buf = make([]byte, o.size)
					o.n, o.err = rr.client.ReadAt(o.buf, o.off)
				case tWrite:
					o.wdata = pattern(o.off, o.size, 0xa5)
					o.n, o.err = rr.client.WriteAt(o.wdata, o.off)
				case tSync:
					o.n, o.err = rr.client.Sync()
				case tUnmap:
					o.n, o.err = rr.client.Unmap(o.off, int64(o.size))
				case tPing:
					o.err = rr.client.Ping()
				}
				o.done = true
				o.doneAt = w.Now()
				w.Kick()
			})
			settle(5 * time.Millisecond)
		case "reply":
			if len(rr.pending) == 0 || realServer {
				rr.shape = append(rr.shape, "reply-none")
				continue
			}
			k := int(op.A) % len(rr.pending)
			req := rr.pending[k]
			rr.reply(req, op.B, k)
			settle(5 * time.Millisecond)
		case "burst":
			if len(rr.pending) < 2 || realServer {
				rr.shape = append(rr.shape, "burst-none")
				continue
			}
			rr.batch = &bytes.Buffer{}
			n := 0
			for j := 0; j < int(op.A) && len(rr.pending) > 0; j++ {
				k := (int(op.B) + j*7) % len(rr.pending)
				kind := int64(0)
				if op.F && j == 1 {
					kind = 1 // an error reply (carries text) in the middle of the burst
				}
				rr.reply(rr.pending[k], kind, k)
				n++
			}
			b := rr.batch.Bytes()
			rr.batch = nil
			c := rr.srvConn
			simrt.GoNamed(rr.w.Node("peer"), fmt.Sprintf("peer/burst%d", rr.w.Counter("peersend")), func() { c.Write(b) })
			rr.res.stat("reply_bursts", 1)
			rr.res.stat("replies_in_bursts", int64(n))
			settle(5 * time.Millisecond)
		case "adv":
			settle(time.Duration(op.A) * time.Millisecond)
			rr.shape = append(rr.shape, "adv")
		case "fault":
			rr.fault(op.A)
			settle(5 * time.Millisecond)
		}
		rr.checkProgress()
	}
	if rr.res.V == nil {
		// drain: answer everything still pending (if the peer can), then every op must finish
		if !realServer && !rr.poisoned && !rr.blackhole {
			for len(rr.pending) > 0 && rr.res.V == nil {
				rr.reply(rr.pending[0], 0, 0)
				settle(2 * time.Millisecond)
			}
		}
		settle(50 * time.Second)
		rr.step = len(s.Ops)
		rr.checkProgress()
		for _, o := range rr.ops {
			if !o.done {
				rr.viol("operation-hung", "operation %d (type %d, issued at %v) never completed (poisoned=%v at %v, now %v)", o.idx, o.typ, o.issued, rr.poisoned, rr.poisonedAt, w.Now())
				break
			}
		}
		if rr.poisoned && rr.res.V == nil && len(rr.closeCh) == 0 {
			rr.viol("failure-not-reported", "the connection failed at %v but nothing was sent on the close channel", rr.poisonedAt)
		}
		if !rr.poisoned && !rr.blackhole && rr.res.V == nil {
			for _, o := range rr.ops {
				if o.err != nil && o.expect != "error" && o.expect != "eof" {
					rr.viol("fault-free-operation-failed", "operation %d failed without any injected fault: %v", o.idx, o.err)
					break
				}
			}
		}
		if realServer && rr.res.V == nil {
			for _, o := range rr.ops {
				if o.err != nil {
					continue
				}
				switch o.typ {
				case tRead:
					if !bytes.Equal(o.buf, pattern(o.off, o.size, 0x5a)) {
						rr.viol("reply-misattributed", "read %d at %d got another request's data", o.idx, o.off)
					}
				case tWrite:
					if !bytes.Equal(proc.data[o.off], o.wdata) {
						rr.viol("write-payload-mangled", "write %d at %d arrived with different payload", o.idx, o.off)
					}
					if o.n != o.size {
						rr.viol("write-count-wrong", "write %d of %d bytes returned %d", o.idx, o.size, o.n)
					}
				}
			}
		}
	}
	rr.res.SimNanos = int64(w.Now())
	rr.res.Steps = w.Steps
	for k, v := range w.Probes() {
		rr.res.Stats[k] += int64(v)
	}
	rr.res.Shape = hashStrings(rr.shape)
	rr.res.Nontrivial = len(rr.ops) > 0
	rr.res.stat("rpc_ops", int64(len(rr.ops)))
	if rr.poisoned {
		rr.res.stat("runs_with_transport_fault", 1)
	}
	rr.res.TraceHash = hashTrace(w.Trace)
	if len(w.Panics) > 0 && rr.res.V == nil {
		rr.viol("panic", "%s", w.Panics[0])
	}
}

func (rr *rpcRun) findOp(req *frame) *rpcOp { return rr.reqOp[req] }

func (rr *rpcRun) send(f *frame) {
	b := f.encode()
	if rr.batch != nil {
		rr.batch.Write(b)
		return
	}
	c := rr.srvConn
	simrt.GoNamed(rr.w.Node("peer"), fmt.Sprintf("peer/send%d", rr.w.Counter("peersend")), func() { c.Write(b) })
}

func (rr *rpcRun) reply(req *frame, kind int64, k int) {
	o := rr.findOp(req)
	if rr.blackhole {
		o = nil // no expectation: the reply is swallowed
	}
	resp := &frame{Magic: fMagic, Seq: req.Seq, Type: tResponse, Offset: req.Offset, Size: int64(len(req.Data))}
	if req.Type == tRead {
		resp.Data = pattern(req.Offset, int(req.Size), 0x5a)
		resp.Size = req.Size
	}
	rr.shape = append(rr.shape, fmt.Sprintf("reply%d", kind))
	rr.res.stat(fmt.Sprintf("reply_kind_%d", kind), 1)
	remove := true
	switch kind {
	case 0:
		if o != nil {
			o.expect = "ok"
		}
	case 1: // error reply
		resp.Type = tError
		resp.Data = []byte("injected failure")
		resp.Size = int64(len(resp.Data))
		if o != nil {
			o.expect = "error"
		}
	case 2: // EOF reply
		resp.Type = tEOF
		if len(resp.Data) > 3 {
			resp.Data = resp.Data[:len(resp.Data)/2]
		}
		resp.Size = int64(len(resp.Data))
		if o != nil {
			o.expect = "eof"
		}
	case 3: // reply with a sequence number nobody is waiting for
		resp.Seq = req.Seq + 100000
		remove = false
	case 4: // answer, then answer again (duplicate)
		if o != nil {
			o.expect = "ok"
		}
		rr.send(resp)
	default:
		if o != nil {
			o.expect = "ok"
		}
	}
	rr.send(resp)
	if remove {
		rr.pending = append(rr.pending[:k], rr.pending[k+1:]...)
	}
}

func (rr *rpcRun) fault(kind int64) {
	rr.shape = append(rr.shape, fmt.Sprintf("fault%d", kind))
	rr.res.stat(fmt.Sprintf("fault_kind_%d", kind), 1)
	c := rr.srvConn
	switch kind % 7 {
	case 0: // reset
		c.Reset("script")
	case 1: // peer closes (FIN)
		simrt.GoNamed(rr.w.Node("peer"), "peer/close", func() { c.Close() })
	case 2: // corrupt magic
		rr.send(&frame{Magic: 0x4242, Seq: 1, Type: tResponse})
	case 3: // torn frame then reset
		b := (&frame{Magic: fMagic, Seq: 1, Type: tResponse, Size: 100, Data: make([]byte, 100)}).encode()
		simrt.GoNamed(rr.w.Node("peer"), "peer/torn", func() { c.Write(b[:17]); c.Reset("torn") })
	case 4: // black hole towards the peer: requests stop arriving, nobody answers
		c.HoldDirection(true)
		rr.blackhole = true
		// detected only by the client's own deadline
		return
	case 5: // black hole towards the client
		c.HoldDirection(false)
		rr.blackhole = true
		return
	case 6: // half close: peer stops sending
		simrt.GoNamed(rr.w.Node("peer"), "peer/halfclose", func() { c.CloseWrite() })
	}
	rr.markPoisoned()
}

func (rr *rpcRun) markPoisoned() {
	if !rr.poisoned {
		rr.poisoned = true
		rr.poisonedAt = rr.w.Now()
	}
}

const rpcOpTimeout = 30 * time.Second
const rpcPingTimeout = 40 * time.Second

func deadlineOf(o *rpcOp) time.Duration {
	if o.typ == tPing {
		return rpcPingTimeout
	}
	return rpcOpTimeout
}

// checkProgress evaluates the per-operation clauses that can be decided now.
func (rr *rpcRun) checkProgress() {
	now := rr.w.Now()
	for _, o := range rr.ops {
		if o.done && o.expect != "" && !o.checked {
			switch o.expect {
			case "ok":
				if o.err != nil {
					// legal only if the connection failed meanwhile
					if !rr.poisoned && !rr.timedOutBefore(o) {
						rr.viol("ok-reply-reported-as-error", "operation %d got a success reply but returned %v", o.idx, o.err)
					}
				} else {
					switch o.typ {
					case tRead:
						if !bytes.Equal(o.buf, pattern(o.off, o.size, 0x5a)) {
							rr.viol("reply-misattributed", "read %d (offset %d) returned data that belongs to another request or is mangled", o.idx, o.off)
						}
						if o.n != o.size {
							rr.viol("read-count-wrong", "read %d of %d bytes returned %d", o.idx, o.size, o.n)
						}
					case tWrite:
						if o.n != o.size {
							rr.viol("write-count-wrong", "write %d of %d bytes returned %d", o.idx, o.size, o.n)
						}
					}
				}
			case "error":
				if o.err == nil {
					rr.viol("error-reply-reported-as-success", "operation %d got an error reply but returned success", o.idx)
				} else if !rr.poisoned && !strings.Contains(o.err.Error(), "injected failure") && !rr.timedOutBefore(o) {
					rr.viol("error-reply-misattributed", "operation %d returned %q instead of its own error reply", o.idx, o.err)
				}
			case "eof":
				if o.err == nil {
					rr.viol("eof-reply-reported-as-success", "operation %d got an EOF reply but returned success", o.idx)
				}
			}
			o.checked = true
		}
		// "every later request on that connection fails promptly": a request issued well after the client
		// has learnt of the failure (5 simulated seconds: propagation + the client's own 2 s grace sleep)
		// may not wait for its deadline
		if rr.poisoned && o.issued >= rr.poisonedAt+5*time.Second && rr.s.Cfg["mode"] == 0 {
			if (o.done && o.doneAt-o.issued > 3*time.Second) || (!o.done && now-o.issued > 3*time.Second) {
				rr.viol("later-request-not-failed-promptly", "operation %d (type %d) was issued at %v, %v after the connection had failed, and was still pending 3 s later (deadline %v)", o.idx, o.typ, o.issued, o.issued-rr.poisonedAt, deadlineOf(o))
			}
		}
		if !o.done {
			// bounded completion
			limit := o.issued + deadlineOf(o) + 3*time.Second
			if rr.poisoned {
				// pending at failure time: fail within its own deadline + 3s (the client
				// may notice a black hole only through that deadline)
			}
			if now > limit {
				rr.viol("operation-exceeded-deadline", "operation %d (type %d) issued at %v still pending at %v (deadline %v + 3s)", o.idx, o.typ, o.issued, now, deadlineOf(o))
			}
		} else if o.err == nil && o.expect == "" && rr.s.Cfg["mode"] == 0 && !rr.blackhole {
			rr.viol("completed-without-reply", "operation %d completed successfully although the peer never answered it", o.idx)
		}
		if o.done && o.err != nil && o.doneAt-o.issued >= deadlineOf(o) {
			// a deadline expired: the client is poisoned from now on
			rr.markPoisoned()
		}
	}
}

func (rr *rpcRun) timedOutBefore(o *rpcOp) bool {
	return o.doneAt-o.issued >= deadlineOf(o)
}
