package sim

import (
	"bytes"
	"encoding/json"
	"fmt"
	"os"
	"os/exec"
	"path/filepath"
	"sort"
	"strings"
	"syscall"
	"testing"
	"testing/synctest"
	"time"

	"github.com/openebs/jiva/replica"
	"github.com/openebs/jiva/types"
	"github.com/openebs/sparse-tools/sparse"
	"verif/simrt"
)

// crashsim (C08, C10 crash clause): fault enumeration at system-call
// granularity. A victim process (this same binary in victim mode) builds a
// pre-history on a real replica directory, then executes ONE operation between
// two marker system calls under the ptrace supervisor (tools/crashsup):
//
//   1. trace run: the directory is copied at every boundary between two
//      state-changing system calls of the operation -> N+1 crash states; each is
//      reopened with the real code and compared with the before/after states.
//   2. for every boundary k and errno in {ENOSPC, EIO} (and a short count for
//      write calls) a separate victim run has that single call fail; the
//      operation must either complete with its full effect or report failure
//      with the old state intact.
//   3. durability lint over the system-call trace of the successful operation.

type crashsim struct{}

func (crashsim) Name() string { return "crashsim" }

func init() {
	register(crashsim{})
	propEngines["C08"] = append(propEngines["C08"], "crashsim")
	propEngines["C10"] = append(propEngines["C10"], "crashsim")
}

var crashOps = []string{"w", "snapu", "snapa", "rm", "mark", "revert", "resize", "ckpt", "rebuilding", "close", "open", "reload", "setrev", "clonestatus"}

func (crashsim) Generate(rng *Rand, prop, tier string) *Script {
	s := &Script{Engine: "crashsim", Prop: prop, Cfg: map[string]int64{}}
	nb := int64(rng.Range(4, 12))
	s.Cfg["blocks"] = nb
	s.Cfg["preload"] = int64(rng.Intn(2))
	secs := nb * 8
	npre := rng.Range(0, 10)
	snapID := int64(0)
	for i := 0; i < npre; i++ {
		switch x := rng.Intn(100); {
		case x < 45:
			a := int64(rng.Intn(int(secs)))
			b := int64(rng.Range(1, 24))
			if a+b > secs {
				b = secs - a
			}
			s.Ops = append(s.Ops, Op{K: "w", A: a, B: b})
		case x < 75:
			snapID++
			s.Ops = append(s.Ops, Op{K: "snap", A: snapID, F: rng.Bool(50)})
		case x < 82:
			s.Ops = append(s.Ops, Op{K: "rm", A: int64(rng.Range(1, 6))})
		case x < 88:
			s.Ops = append(s.Ops, Op{K: "revert", A: int64(rng.Intn(6))})
		case x < 94:
			s.Ops = append(s.Ops, Op{K: "reopen", F: rng.Bool(50)})
		default:
			s.Ops = append(s.Ops, Op{K: "resize", A: int64(rng.Range(1, 3))})
		}
	}
	// the operation under test (always last)
	k := crashOps[rng.Intn(len(crashOps))]
	if prop == "C10" {
		k = []string{"w", "w", "setrev", "snapa", "close", "open", "reload", "revert"}[rng.Intn(8)]
	}
	if k == "rm" || k == "mark" || k == "revert" || k == "ckpt" {
		for i := 0; i < 3; i++ {
			snapID++
			s.Ops = append(s.Ops, Op{K: "snap", A: snapID, F: rng.Bool(40)})
			if rng.Bool(60) {
				a := int64(rng.Intn(int(secs)))
				b := int64(rng.Range(1, 16))
				if a+b > secs {
					b = secs - a
				}
				s.Ops = append(s.Ops, Op{K: "w", A: a, B: b})
			}
		}
	}
	op := Op{K: "T:" + k}
	switch k {
	case "w":
		op.A = int64(rng.Intn(int(secs)))
		op.B = int64(rng.Range(1, 24))
		if op.A+op.B > secs {
			op.B = secs - op.A
		}
	case "rm", "mark", "revert", "ckpt":
		op.A = int64(rng.Range(0, 6))
	case "resize":
		op.A = int64(rng.Range(1, 4))
	case "setrev":
		op.A = int64(rng.Range(2, 500))
	case "rebuilding":
		op.F = true
	}
	s.Ops = append(s.Ops, op)
	return s
}

// ---------------------------------------------------------------- victim side

type victimSpec struct {
	Dir    string  `json:"dir"`
	Script *Script `json:"script"`
}

func mark(name string) { syscall.Access("/VERIF_MARK_"+name, 0) }

// victim runs the pre-history and then the operation under test between markers.
func victim(t *testing.T) {
	var spec victimSpec
	b, err := os.ReadFile(os.Getenv("VERIF_VICTIM"))
	if err != nil {
		t.Fatal(err)
	}
	if err := json.Unmarshal(b, &spec); err != nil {
		t.Fatal(err)
	}
	s := spec.Script
	pre := s.Clone()
	pre.Ops = pre.Ops[:len(s.Ops)-1]
	pre.Cfg["punch"] = 0
	pre.Cfg["lag"] = 0
	test := s.Ops[len(s.Ops)-1]
	inBubble(t, func() {
		res := &Result{Stats: map[string]int64{}}
		rr := &repRun{t: t, s: pre, res: res, dir: spec.Dir, victim: true}
		rr.victimOp = func() {
			kind := strings.TrimPrefix(test.K, "T:")
			if kind == "open" {
				rr.do("pre-close", func() { rr.srv.Close() })
			}
			rr.w.Wait()
			mark("BEGIN")
			var err error
			finished := rr.do("test-op", func() { err = rr.runTestOp(kind, test) })
			if !finished || rr.exited {
				os.Exit(1) // the replica process exited (logrus.Fatal) or wedged inside the operation: no END marker
			}
			if err != nil {
				mark("END_err")
			} else {
				mark("END_ok")
			}
			os.Exit(0)
		}
		rr.run()
	})
	os.Exit(0)
}

// runTestOp executes the operation under test exactly as its production callers do.
func (rr *repRun) runTestOp(kind string, op Op) error {
	srv := rr.srv
	m := rr.m
	switch kind {
	case "w":
		_, err := srv.WriteAt(stampData(9999, op.A, op.B), op.A*sect)
		return err
	case "snapu":
		return srv.Snapshot("tu", true, "2021-01-01T00:00:00Z")
	case "snapa":
		return srv.Snapshot("ta", false, "2021-01-01T00:00:00Z")
	case "mark":
		t := rr.sel(op.A)
		if t == "" {
			return fmt.Errorf("nothing to mark")
		}
		_, err := srv.PrepareRemoveDisk(t)
		return err
	case "rm":
		c := m.chain()
		if len(c) < 3 {
			return fmt.Errorf("chain too short")
		}
		t := c[1+int(op.A)%(len(c)-2)] // neither latest nor base
		acts, err := srv.PrepareRemoveDisk(t)
		if err != nil {
			return err
		}
		for _, a := range acts {
			switch a.Action {
			case replica.OpCoalesce:
				if err := sparse.FoldFile(filepath.Join(rr.dir, a.Source), filepath.Join(rr.dir, a.Target), &foldStub{}); err != nil {
					return err
				}
			case replica.OpRemove:
				if err := srv.RemoveDiffDisk(a.Source); err != nil {
					return err
				}
			}
		}
		return nil
	case "revert":
		t := rr.sel(op.A)
		if t == "" {
			return fmt.Errorf("nothing to revert to")
		}
		return srv.Revert(t, "2021-01-02T00:00:00Z")
	case "resize":
		return srv.Resize(fmt.Sprint(m.size + op.A*blk))
	case "ckpt":
		return srv.SetCheckpoint(rr.sel(op.A))
	case "rebuilding":
		return srv.SetRebuilding(true)
	case "close":
		return srv.Close()
	case "open":
		if err := srv.Open(); err != nil {
			return err
		}
		return srv.SetReplicaMode("RW")
	case "reload":
		return srv.Reload()
	case "setrev":
		return srv.SetRevisionCounter(op.A)
	case "clonestatus":
		return srv.Replica().SetCloneStatus("completed")
	}
	return fmt.Errorf("unknown test op %s", kind)
}

// ---------------------------------------------------------------- checker side

type dirState struct {
	ok    bool
	err   string
	head  string
	chain []string
	size  int64
	live  []byte
	snaps map[string][]byte
	rev   int64
	metas map[string]diskMeta
	vm    volMeta
}

// readDirState reads a replica directory with the independent reader only.
func readDirState(dir string) *dirState {
	st := &dirState{snaps: map[string][]byte{}}
	if err := readJSON(filepath.Join(dir, "volume.meta"), &st.vm); err != nil {
		st.err = "volume.meta: " + err.Error()
		return st
	}
	st.head, st.size = st.vm.Head, st.vm.Size
	chain, metas, err := diskChain(dir, st.vm.Head)
	if err != nil {
		st.err = err.Error()
		return st
	}
	st.chain, st.metas = chain, metas
	// file sizes may exceed volume.meta's size in the middle of a resize: read what is there
	img, err := imageOf(dir, chain, st.size)
	if err != nil {
		st.err = err.Error()
		return st
	}
	st.live = img
	for i, n := range chain[1:] {
		si, err := imageOf(dir, chain[i+1:], st.size)
		if err != nil {
			st.err = err.Error()
			return st
		}
		st.snaps[n] = si
	}
	st.rev, _ = readRevisionFile(dir)
	st.ok = true
	return st
}

type recovered struct {
	openErr string
	chain   []string
	live    []byte
	rev     int64
	size    int64
	retry   string // "", "ok", "refused", or problem text
}

// recover opens a crash state with the real code inside a bubble, reads it, and
// optionally retries the interrupted operation.
func (cs *crashRun) recover(dir string, retry bool) *recovered {
	rec := &recovered{}
	infra := inBubble(cs.t, func() {
		w := simrt.NewWorld(1, synctest.Wait)
		w.StrictLocks = os.Getenv("VERIF_LOOSE_LOCKS") == ""
		defer w.Close()
		replica.HoleCreatorChan = make(chan replica.Hole, 1<<12)
		types.DrainOps = 0
		types.ShouldPunchHoles = false
		types.MaxChainLength = 0
		simrt.GoNamed(nil, "puncher", replica.CreateHoles)
		srv := replica.NewServer("127.0.0.1:9502", dir, sect, "")
		do := func(f func()) {
			done := false
			simrt.GoNamed(nil, fmt.Sprintf("rec%d", w.Counter("rec")), func() { f(); done = true; w.Kick() })
			if !w.Pump(func() bool { return done || len(w.Fatals) > 0 || len(w.Panics) > 0 }, w.Now()+10*time.Minute, nil) || !done {
				if rec.openErr == "" {
					rec.openErr = fmt.Sprintf("operation did not finish (fatals=%v panics=%v)", w.Fatals, firstLine(w.Panics))
				}
			}
		}
		var err error
		do(func() {
			srv.SetPreload(cs.s.Cfg["preload"] != 0)
			if err = srv.Open(); err != nil {
				return
			}
			err = srv.SetReplicaMode("RW")
		})
		if err != nil {
			rec.openErr = err.Error()
		}
		if rec.openErr != "" {
			return
		}
		r := srv.Replica()
		do(func() {
			rec.chain, _ = r.Chain()
			rec.size = r.Info().Size
			rec.live = make([]byte, rec.size)
			_, err = srv.ReadAt(rec.live, 0)
			rec.rev = r.GetRevisionCounter()
		})
		if err != nil {
			rec.openErr = "read after reopen: " + err.Error()
			return
		}
		if retry {
			kind := strings.TrimPrefix(cs.test.K, "T:")
			rr := &repRun{t: cs.t, s: cs.s, res: &Result{Stats: map[string]int64{}}, dir: dir, srv: srv, w: w, m: &repModel{size: rec.size}}
			// the retry uses the recovered chain for target selection
			rr.m.snaps = map[string]*mSnap{}
			prev := ""
			for i := len(rec.chain) - 1; i >= 1; i-- {
				rr.m.snaps[rec.chain[i]] = &mSnap{name: rec.chain[i], parent: prev}
				prev = rec.chain[i]
			}
			rr.m.headParent = prev
			var rerr error
			do(func() {
				if kind == "open" {
					srv.Close()
				}
				rerr = rr.runTestOp(kind, cs.test)
			})
			if rec.openErr != "" {
				rec.retry = "retry hung or crashed: " + rec.openErr
				rec.openErr = ""
				return
			}
			if rerr != nil {
				rec.retry = "refused"
			} else {
				rec.retry = "ok"
			}
			// whatever the retry did, the replica must still be consistent and reopenable
			do(func() {
				if srv.Replica() != nil {
					err = srv.Close()
				}
				if err == nil {
					err = srv.Open()
				}
			})
			if err != nil {
				rec.retry = "after retry (" + rec.retry + ") the replica cannot be reopened: " + err.Error()
			}
		}
		do(func() {
			if srv.Replica() != nil {
				srv.Close()
			}
		})
	})
	if infra != "" && rec.openErr == "" {
		rec.openErr = "infra: " + infra
	}
	return rec
}

func firstLine(ss []string) string {
	if len(ss) == 0 {
		return ""
	}
	return strings.SplitN(ss[0], "\n", 2)[0]
}

type crashRun struct {
	t    *testing.T
	s    *Script
	res  *Result
	test Op
	kind string
	root string
}

func (cs *crashRun) viol(clause, format string, a ...interface{}) {
	if cs.res.V != nil || cs.res.Other != "" {
		return
	}
	prop := "C08"
	if clause == "crash-state-revision-counter" {
		prop = "C10"
	}
	v := &Violation{Prop: prop, Clause: clause, Msg: fmt.Sprintf(format, a...)}
	if prop == cs.s.Prop {
		cs.res.V = v
	} else {
		cs.res.Other = v.Sig() + ": " + v.Msg
	}
}

func (cs *crashRun) stopped() bool {
	return cs.res.V != nil || cs.res.Other != "" || cs.res.Infra != ""
}

type supTrace struct {
	Calls  []supCall `json:"calls"`
	Result string    `json:"result"`
	Began  bool      `json:"began"`
	Ended  bool      `json:"ended"`
}

type supCall struct {
	K     int    `json:"k"`
	Nr    int    `json:"nr"`
	Name  string `json:"name"`
	Path  string `json:"path"`
	Path2 string `json:"path2"`
	Fd    int    `json:"fd"`
	Flags int    `json:"flags"`
	Len   int    `json:"len"`
	Ret   int64  `json:"ret"`
}

// runVictim executes the victim under the supervisor; returns trace and exit status.
func (cs *crashRun) runVictim(dir, out string, inject int, errno int, short bool) (*supTrace, int, string) {
	os.RemoveAll(dir)
	os.RemoveAll(out)
	os.MkdirAll(dir, 0700)
	spec := victimSpec{Dir: dir, Script: cs.s}
	sf := out + ".spec.json"
	b, _ := json.Marshal(&spec)
	os.WriteFile(sf, b, 0644)
	defer os.Remove(sf)
	exe, _ := os.Executable()
	args := []string{"-dir", dir, "-out", out}
	if inject > 0 {
		args = append(args, "-inject", fmt.Sprint(inject), "-errno", fmt.Sprint(errno))
		if short {
			args = append(args, "-short")
		}
	}
	args = append(args, "--", exe, "-test.run", "^TestSim$", "-test.timeout", "0")
	cmd := exec.Command(os.Getenv("VERIF_CRASHSUP"), args...)
	cmd.Env = append(os.Environ(), "VERIF_MODE=victim", "VERIF_VICTIM="+sf, "GOMAXPROCS=2")
	var outb bytes.Buffer
	cmd.Stdout, cmd.Stderr = &outb, &outb
	err := cmd.Run()
	code := 0
	if ee, ok := err.(*exec.ExitError); ok {
		code = ee.ExitCode()
	} else if err != nil {
		return nil, 2, err.Error()
	}
	var tr supTrace
	if b, err := os.ReadFile(filepath.Join(out, "trace.json")); err == nil {
		json.Unmarshal(b, &tr)
	}
	tail := outb.String()
	if len(tail) > 1500 {
		tail = tail[len(tail)-1500:]
	}
	return &tr, code, tail
}

func (crashsim) Run(t *testing.T, s *Script) *Result {
	res := &Result{Stats: map[string]int64{}}
	root := newRunDir()
	if os.Getenv("VERIF_KEEP") == "" {
		defer os.RemoveAll(root)
	}
	cs := &crashRun{t: t, s: s, res: res, test: s.Ops[len(s.Ops)-1], root: root}
	cs.kind = strings.TrimPrefix(cs.test.K, "T:")
	if os.Getenv("VERIF_CRASHSUP") == "" {
		res.Infra = "VERIF_CRASHSUP not set"
		return res
	}
	cs.run()
	res.Shape = hashStrings([]string{cs.kind, fmt.Sprint(res.Stats["boundaries"]), s.Shape()})
	res.Nontrivial = res.Stats["crash_states_checked"] > 1
	return res
}

func eqStrs(a, b []string) bool { return strings.Join(a, ",") == strings.Join(b, ",") }

func (cs *crashRun) run() {
	dir := filepath.Join(cs.root, "vol")
	out := filepath.Join(cs.root, "trace")
	tr, code, tail := cs.runVictim(dir, out, 0, 0, false)
	if tr == nil || code == 2 || !tr.Began {
		cs.res.Infra = fmt.Sprintf("trace run failed (code %d): %s", code, tail)
		return
	}
	if !tr.Ended {
		// the operation under test killed the process without any injected fault
		cs.res.Infra = fmt.Sprintf("victim died inside the fault-free operation %s: %s", cs.kind, tail)
		return
	}
	n := len(tr.Calls)
	cs.res.stat("boundaries", int64(n))
	cs.res.stat("op_"+cs.kind+"_"+tr.Result, 1)
	before := readDirState(filepath.Join(out, "state-0"))
	after := readDirState(filepath.Join(out, fmt.Sprintf("state-%d", n)))
	if !before.ok && cs.kind != "open" {
		cs.res.Infra = "state-0 unreadable: " + before.err
		return
	}
	if tr.Result != "ok" {
		// a refused operation (bad target, chain too short): must be a no-op
		cs.res.stat("test_op_refused", 1)
	}
	// ---- 1. every crash state
	for k := 0; k <= n; k++ {
		sd := filepath.Join(out, fmt.Sprintf("state-%d", k))
		if _, err := os.Stat(sd); err != nil {
			continue
		}
		what := fmt.Sprintf("process death after %d of %d system calls of %s", k, n, cs.kind)
		if k < n {
			what += fmt.Sprintf(" (next: %s %s)", tr.Calls[k].Name, filepath.Base(tr.Calls[k].Path))
		}
		cs.judgeCrashState(sd, what, before, after, k == 0 || k == n)
		cs.res.stat("crash_states_checked", 1)
		if cs.stopped() {
			return
		}
	}
	// ---- 2. durability lint (only for operations that reported success)
	if tr.Result == "ok" {
		cs.lint(tr, dir)
		if cs.stopped() {
			return
		}
	}
	// ---- 3. single-call failures
	budget := 60
	for k := 1; k <= n && budget > 0; k++ {
		c := tr.Calls[k-1]
		kinds := []struct {
			errno int
			short bool
		}{{int(syscall.ENOSPC), false}, {int(syscall.EIO), false}}
		if c.Name == "write" || c.Name == "pwrite64" {
			kinds = append(kinds, struct {
				errno int
				short bool
			}{0, true})
		}
		if c.Name == "fsync" || c.Name == "fdatasync" {
			kinds = kinds[1:] // ENOSPC on fsync is not a thing
		}
		for _, kd := range kinds {
			budget--
			idir := filepath.Join(cs.root, "inj")
			iout := filepath.Join(cs.root, "injtrace")
			itr, icode, itail := cs.runVictim(idir, iout, k, kd.errno, kd.short)
			if itr == nil || icode == 2 || !itr.Began {
				cs.res.Infra = fmt.Sprintf("inject run failed (code %d): %s", icode, itail)
				return
			}
			// the victim's system-call sequence is deterministic except for the number of
			// data writes of a coalesce (extent layout): the injected call must be the one intended
			rel := func(p, root string) string {
				if p == root {
					return "."
				}
				return filepath.Base(p)
			}
			if len(itr.Calls) >= k && (itr.Calls[k-1].Name != c.Name || rel(itr.Calls[k-1].Path, idir) != rel(c.Path, dir)) {
				cs.res.stat("injection_skipped_trace_diverged", 1)
				cs.res.stat(fmt.Sprintf("diverged_%s_%s_vs_%s_%s", cs.kind, c.Name, itr.Calls[k-1].Name, strings.TrimLeft(filepath.Ext(itr.Calls[k-1].Path), ".")), 1)
				continue
			}
			what := fmt.Sprintf("%s: call %d/%d (%s %s) failed with errno %d short=%v", cs.kind, k, n, c.Name, filepath.Base(c.Path), kd.errno, kd.short)
			cs.res.stat("injections", 1)
			cs.res.stat(fmt.Sprintf("inject_%s_%d", c.Name, kd.errno), 1)
			fin := readDirState(idir)
			switch {
			case !itr.Ended:
				// the process exited (logrus.Fatal) or crashed: same as a crash at that point
				cs.res.stat("injection_killed_process", 1)
				cs.judgeCrashState(idir, what+" -> process exited", before, after, false)
			case itr.Result == "ok":
				cs.res.stat("injection_survived_ok", 1)
				cs.judgeFinal(idir, what+" -> operation reported success", fin, after, before, true)
			default:
				cs.res.stat("injection_reported_error", 1)
				cs.judgeFinal(idir, what+" -> operation reported failure", fin, before, after, false)
			}
			if cs.stopped() {
				return
			}
		}
	}
}

// sameImage compares a recovered image with expectations; for a data write each
// 4 KiB block may be old or new.
func blockwiseOldOrNew(got, old, nw []byte) (bool, string) {
	n := len(got)
	for b := 0; b*blk < n; b++ {
		lo, hi := b*blk, (b+1)*blk
		if hi > n {
			hi = n
		}
		g := got[lo:hi]
		okOld := hi <= len(old) && bytes.Equal(g, old[lo:hi])
		okNew := hi <= len(nw) && bytes.Equal(g, nw[lo:hi])
		if !okOld && !okNew {
			// a block beyond the old size reads zero in the old state
			zero := true
			for _, c := range g {
				if c != 0 {
					zero = false
					break
				}
			}
			if zero && lo >= len(old) {
				continue
			}
			return false, fmt.Sprintf("block %d is neither the old nor the new content", b)
		}
	}
	return true, ""
}

func (cs *crashRun) judgeCrashState(sd, what string, before, after *dirState, endpoint bool) {
	rec := cs.recover(sd, true)
	if rec.openErr != "" {
		cs.viol("crash-state-unopenable", "%s: the directory cannot be reopened: %s", what, rec.openErr)
		return
	}
	// chain: before or after (the head name is part of it)
	cb, ca := rec.chain, rec.chain
	_ = ca
	okChain := eqStrs(cb, before.chain) || (after.ok && eqStrs(cb, after.chain))
	if !okChain {
		cs.viol("crash-state-chain-neither-before-nor-after", "%s: chain after reopen %v; before %v, after %v", what, rec.chain, before.chain, after.chain)
		return
	}
	// data
	if cs.kind == "w" || cs.kind == "resize" {
		if ok, why := blockwiseOldOrNew(rec.live, before.live, after.live); !ok {
			cs.viol("crash-state-data-damaged", "%s: %s", what, why)
			return
		}
	} else if !(bytes.Equal(rec.live, before.live) || (after.ok && bytes.Equal(rec.live, after.live))) {
		cs.viol("crash-state-data-changed", "%s: volume content after reopen is neither the old nor the new image: vs old: %s", what, describeDiff(rec.live, before.live))
		return
	}
	// retained snapshots: every snapshot present in both the before and after chain keeps its image,
	// except the merge target of a removal
	now := readDirState(sd) // note: after reopen + retry + close
	_ = now
	lo, hi := before.rev, before.rev
	if after.ok {
		if after.rev < lo {
			lo = after.rev // (an explicit set may lower it)
		}
		if after.rev > hi {
			hi = after.rev
		}
	}
	if rec.rev < lo || rec.rev > hi {
		cs.viol("crash-state-revision-counter", "%s: revision counter after reopen %d, before %d, after %d", what, rec.rev, before.rev, after.rev)
		return
	}
	if strings.HasPrefix(rec.retry, "after retry") || strings.HasPrefix(rec.retry, "retry hung") {
		cs.viol("retry-after-crash-broke-replica", "%s: %s", what, rec.retry)
		return
	}
	cs.res.stat("retry_"+rec.retry, 1)
}

// judgeFinal: the operation returned; `want` is the state it must now be in.
func (cs *crashRun) judgeFinal(dir, what string, fin, want, other *dirState, success bool) {
	if !fin.ok {
		if os.Getenv("VERIF_DEBUG") != "" {
			ents, _ := os.ReadDir(dir)
			for _, e := range ents {
				b, _ := os.ReadFile(filepath.Join(dir, e.Name()))
				if len(b) > 300 {
					b = b[:0]
				}
				fmt.Fprintf(os.Stderr, "DEBUG %s: %s %q\n", what, e.Name(), b)
			}
		}
		if success {
			cs.viol("success-reported-over-damaged-metadata", "%s, but the directory is unreadable: %s", what, fin.err)
		} else {
			cs.viol("failure-left-damaged-metadata", "%s, and the directory is unreadable: %s", what, fin.err)
		}
		return
	}
	// snapshot images as they are on disk now (before the reopen below rewrites metadata)
	for n, img := range want.snaps {
		if success && cs.kind == "rm" {
			break // the merge target legitimately changes; covered by the live/chain checks and by repsim
		}
		if cur, ok := fin.snaps[n]; ok && other != nil {
			if o2, ok2 := other.snaps[n]; ok2 && bytes.Equal(img, o2) && !bytes.Equal(cur, img) {
				cs.viol("snapshot-changed-by-failed-call", "%s: snapshot %s changed: %s", what, n, describeDiff(cur, img))
				return
			}
		}
	}
	rec := cs.recover(dir, false)
	if rec.openErr != "" {
		clause := "failure-left-unopenable-replica"
		if success {
			clause = "success-reported-over-damaged-metadata"
		}
		cs.viol(clause, "%s, but the directory cannot be reopened: %s", what, rec.openErr)
		return
	}
	if !want.ok {
		return
	}
	okChain := eqStrs(rec.chain, want.chain)
	okData := bytes.Equal(rec.live, want.live)
	if cs.kind == "w" || cs.kind == "resize" {
		if !success {
			okData, _ = blockwiseOldOrNew(rec.live, want.live, other.live)
		}
	}
	// C10: the counter counts applied writes exactly
	if success && rec.rev != want.rev {
		cs.viol("crash-state-revision-counter", "%s, but the revision counter after reopen is %d, the completed operation's is %d", what, rec.rev, want.rev)
		return
	}
	if !success && cs.kind == "w" && rec.rev != want.rev && !(other.ok && bytes.Equal(rec.live, other.live) && rec.rev == other.rev) {
		cs.viol("crash-state-revision-counter", "%s, but the revision counter after reopen is %d although the write was not applied (before %d)", what, rec.rev, want.rev)
		return
	}
	if success {
		if !okChain {
			cs.viol("success-reported-but-effect-missing", "%s, but the chain after reopen is %v, expected %v", what, rec.chain, want.chain)
			return
		}
		if !okData {
			cs.viol("success-reported-but-data-wrong", "%s, but the volume content differs from the completed operation's: %s", what, describeDiff(rec.live, want.live))
			return
		}
		return
	}
	// failure reported: old state intact (or, for multi-step operations that passed their commit point, the new one)
	if !okChain && !(other.ok && eqStrs(rec.chain, other.chain)) {
		cs.viol("failure-reported-but-chain-damaged", "%s: chain after reopen %v is neither the old %v nor the new %v", what, rec.chain, want.chain, other.chain)
		return
	}
	if !okData && !(other.ok && bytes.Equal(rec.live, other.live)) {
		cs.viol("failure-reported-but-data-damaged", "%s: volume content after reopen is neither old nor new: %s", what, describeDiff(rec.live, want.live))
		return
	}
}

// lint: every directory-entry change is followed by an fsync of the directory
// before the operation returns; metadata content is durable before it is published.
func (cs *crashRun) lint(tr *supTrace, dir string) {
	cs.res.stat("lint_traces", 1)
	lastEntryChange, lastDirSync := -1, -1
	var lastChange supCall
	synced := map[string]bool{} // path -> content durable (O_SYNC open or fsync after last write)
	for i, c := range tr.Calls {
		switch c.Name {
		case "open", "openat", "creat":
			if c.Flags&syscall.O_CREAT != 0 && c.Ret >= 0 {
				lastEntryChange, lastChange = i, c
			}
			synced[c.Path] = c.Flags&syscall.O_SYNC != 0
		case "write", "pwrite64":
			if !oSync(tr, c.Path) {
				synced[c.Path] = false
			}
		case "rename", "renameat", "renameat2", "link", "linkat", "unlink", "unlinkat":
			if c.Ret == 0 {
				lastEntryChange, lastChange = i, c
			}
			if strings.HasPrefix(c.Name, "rename") && strings.HasSuffix(c.Path, ".tmp") && c.Ret == 0 {
				if !synced[c.Path] && !oSync(tr, c.Path) {
					cs.viol("metadata-published-before-durable", "%s: %s renamed over %s although its content was neither written O_SYNC nor fsynced", cs.kind, filepath.Base(c.Path), filepath.Base(c.Path2))
					return
				}
			}
		case "fsync", "fdatasync":
			if c.Path == strings.TrimRight(dir, "/") {
				lastDirSync = i
			} else {
				synced[c.Path] = true
			}
		}
	}
	if lastEntryChange >= 0 && lastDirSync < lastEntryChange {
		cs.viol("directory-change-not-fsynced", "%s returned success but its last directory update (%s %s) is not followed by an fsync of the replica directory", cs.kind, lastChange.Name, filepath.Base(lastChange.Path))
	}
}

func oSync(tr *supTrace, path string) bool {
	last := false
	for _, c := range tr.Calls {
		if (c.Name == "openat" || c.Name == "open") && c.Path == path {
			last = c.Flags&syscall.O_SYNC != 0
		}
	}
	return last
}

var _ = sort.Strings
