// crashsup: a ptrace supervisor that turns the kernel's system-call boundary
// into the disk seam for one replica directory (property C08).
//
//	crashsup -dir D -out O [-inject K -errno N [-short]] -- victim args...
//
// The victim brackets the operation under test with two marker system calls
// (faccessat on /VERIF_MARK_BEGIN and /VERIF_MARK_END_<result>). Between the
// markers, every state-changing system call that touches D is a *boundary*:
//
//   - trace mode: at the ENTRY of boundary k (k = 1..N) the directory is copied
//     (sparse + hard-link preserving) to O/state-<k-1>... i.e. state-j is the
//     directory after j boundaries completed; O/trace.json lists the calls.
//   - inject mode: boundary K is not executed; the victim sees -errno (or, with
//     -short, a write that stores only half of its bytes).
//
// Exit status: 0 ok (victim's END marker seen), 3 victim ended without END
// marker, 2 supervisor trouble.
package main

import (
	"encoding/json"
	"flag"
	"fmt"
	"io"
	"os"
	"os/exec"
	"path/filepath"
	"runtime"
	"strings"
	"syscall"
)

type call struct {
	K     int    `json:"k"`
	Nr    int    `json:"nr"`
	Name  string `json:"name"`
	Path  string `json:"path,omitempty"`
	Path2 string `json:"path2,omitempty"`
	Fd    int    `json:"fd,omitempty"`
	Flags int    `json:"flags,omitempty"`
	Len   int    `json:"len,omitempty"`
	Tid   int    `json:"tid"`
	Ret   int64  `json:"ret"`
}

type traceOut struct {
	Calls  []call `json:"calls"`
	Result string `json:"result"`
	Began  bool   `json:"began"`
	Ended  bool   `json:"ended"`
	FdSync []call `json:"-"`
}

var names = map[int]string{
	0: "read", 1: "write", 2: "open", 3: "close", 17: "pread64", 18: "pwrite64", 74: "fsync", 75: "fdatasync", 76: "truncate", 77: "ftruncate",
	82: "rename", 83: "mkdir", 85: "creat", 86: "link", 87: "unlink", 257: "openat", 258: "mkdirat", 263: "unlinkat", 264: "renameat",
	265: "linkat", 269: "faccessat", 285: "fallocate", 316: "renameat2", 439: "faccessat2",
}

func die(f string, a ...interface{}) {
	fmt.Fprintf(os.Stderr, "crashsup: "+f+"\n", a...)
	os.Exit(2)
}

func readString(pid int, addr uintptr) string {
	var out []byte
	buf := make([]byte, 256)
	for len(out) < 4096 {
		n, err := syscall.PtracePeekData(pid, addr+uintptr(len(out)), buf)
		if err != nil || n == 0 {
			break
		}
		for i := 0; i < n; i++ {
			if buf[i] == 0 {
				return string(append(out, buf[:i]...))
			}
		}
		out = append(out, buf[:n]...)
	}
	return string(out)
}

type tstate struct {
	inSyscall bool
	cur       *call // boundary being executed (for recording its result)
	injected  bool
	injRet    int64
	openPath  string
	openNr    int
}

func main() {
	dir := flag.String("dir", "", "replica directory to watch")
	out := flag.String("out", "", "output directory")
	inject := flag.Int("inject", 0, "boundary to fail (0 = trace mode)")
	errno := flag.Int("errno", int(syscall.ENOSPC), "errno to inject")
	short := flag.Bool("short", false, "short write instead of an error")
	nocopy := flag.Bool("nocopy", false, "trace only, no state copies")
	flag.Parse()
	if *dir == "" || *out == "" || flag.NArg() == 0 {
		die("usage")
	}
	watch := strings.TrimRight(*dir, "/")
	os.MkdirAll(*out, 0755)
	runtime.LockOSThread()
	cmd := exec.Command(flag.Arg(0), flag.Args()[1:]...)
	cmd.Stdout = os.Stderr
	cmd.Stderr = os.Stderr
	cmd.SysProcAttr = &syscall.SysProcAttr{Ptrace: true}
	if err := cmd.Start(); err != nil {
		die("start: %v", err)
	}
	pid := cmd.Process.Pid
	var ws syscall.WaitStatus
	if _, err := syscall.Wait4(pid, &ws, 0, nil); err != nil {
		die("wait: %v", err)
	}
	opts := syscall.PTRACE_O_TRACESYSGOOD | syscall.PTRACE_O_TRACECLONE | syscall.PTRACE_O_TRACEFORK | syscall.PTRACE_O_TRACEVFORK | 0x100000 /*EXITKILL*/
	if err := syscall.PtraceSetOptions(pid, opts); err != nil {
		die("setoptions: %v", err)
	}
	syscall.PtraceSyscall(pid, 0)

	threads := map[int]*tstate{pid: {}}
	fds := map[int]string{} // fd -> path under watch (shared fd table: threads)
	var tr traceOut
	active := false
	k := 0
	exitCode := 3
	copyState := func(j int) {
		if *nocopy || *inject != 0 {
			return
		}
		if err := copyDirSparse(watch, filepath.Join(*out, fmt.Sprintf("state-%d", j))); err != nil {
			die("copy state %d: %v", j, err)
		}
	}
	under := func(p string) bool { return p == watch || strings.HasPrefix(p, watch+"/") }
	for {
		tid, err := syscall.Wait4(-1, &ws, syscall.WALL, nil)
		if err != nil {
			if err == syscall.EINTR {
				continue
			}
			break
		}
		if ws.Exited() || ws.Signaled() {
			delete(threads, tid)
			if tid == pid {
				break
			}
			continue
		}
		if !ws.Stopped() {
			continue
		}
		st := threads[tid]
		if st == nil {
			st = &tstate{}
			threads[tid] = st
		}
		sig := ws.StopSignal()
		if sig == syscall.SIGTRAP|0x80 {
			var regs syscall.PtraceRegs
			if err := syscall.PtraceGetRegs(tid, &regs); err != nil {
				syscall.PtraceSyscall(tid, 0)
				continue
			}
			if !st.inSyscall {
				// ---- syscall entry
				st.inSyscall = true
				nr := int(regs.Orig_rax)
				a0, a1, a2, a3 := regs.Rdi, regs.Rsi, regs.Rdx, regs.R10
				var c *call
				switch nr {
				case 269, 439: // faccessat: markers
					p := readString(tid, uintptr(a1))
					if p == "/VERIF_MARK_BEGIN" {
						active = true
						tr.Began = true
						copyState(0)
					} else if strings.HasPrefix(p, "/VERIF_MARK_END_") {
						active = false
						tr.Ended = true
						tr.Result = strings.TrimPrefix(p, "/VERIF_MARK_END_")
						copyState(k)
						exitCode = 0
					}
				case 2, 85: // open, creat
					p := readString(tid, uintptr(a0))
					st.openPath, st.openNr = p, nr
					fl := int(a1)
					if nr == 85 {
						fl = syscall.O_CREAT | syscall.O_TRUNC | syscall.O_WRONLY
					}
					if under(p) && fl&(syscall.O_CREAT|syscall.O_TRUNC) != 0 {
						c = &call{Nr: nr, Path: p, Flags: fl}
					}
				case 257: // openat
					p := readString(tid, uintptr(a1))
					st.openPath, st.openNr = p, nr
					if under(p) && int(a2)&(syscall.O_CREAT|syscall.O_TRUNC) != 0 {
						c = &call{Nr: nr, Path: p, Flags: int(a2)}
					}
				case 1, 18: // write, pwrite64
					if p, ok := fds[int(a0)]; ok {
						c = &call{Nr: nr, Fd: int(a0), Path: p, Len: int(a2)}
					}
				case 74, 75, 77, 285: // fsync fdatasync ftruncate fallocate
					if p, ok := fds[int(a0)]; ok {
						c = &call{Nr: nr, Fd: int(a0), Path: p}
					}
				case 3: // close
					delete(fds, int(a0))
				case 76, 87, 83: // truncate unlink mkdir
					p := readString(tid, uintptr(a0))
					if under(p) {
						c = &call{Nr: nr, Path: p}
					}
				case 263, 258: // unlinkat mkdirat
					p := readString(tid, uintptr(a1))
					if under(p) {
						c = &call{Nr: nr, Path: p}
					}
				case 82, 86: // rename link
					p1, p2 := readString(tid, uintptr(a0)), readString(tid, uintptr(a1))
					if under(p1) || under(p2) {
						c = &call{Nr: nr, Path: p1, Path2: p2}
					}
				case 264, 316, 265: // renameat renameat2 linkat
					p1, p2 := readString(tid, uintptr(a1)), readString(tid, uintptr(a3))
					if under(p1) || under(p2) {
						c = &call{Nr: nr, Path: p1, Path2: p2}
					}
				}
				if c != nil && active {
					k++
					c.K, c.Tid, c.Name = k, tid, names[nr]
					// state before this boundary = after k-1 boundaries
					if k > 1 {
						copyState(k - 1)
					}
					st.cur = c
					if *inject == k && *short && !((nr == 1 || nr == 18) && c.Len > 1) {
						// a short count only makes sense for a write: leave any other call alone
					} else if *inject == k {
						st.injected = true
						st.injRet = -int64(*errno)
						if *short && (nr == 1 || nr == 18) && c.Len > 1 {
							// let the kernel write only half
							regs.Rdx = uint64(c.Len / 2)
							syscall.PtraceSetRegs(tid, &regs)
							st.injected = false
						} else {
							regs.Orig_rax = ^uint64(0) // no such syscall
							syscall.PtraceSetRegs(tid, &regs)
						}
					}
				}
			} else {
				// ---- syscall exit
				st.inSyscall = false
				if st.injected {
					regs.Rax = uint64(st.injRet)
					syscall.PtraceSetRegs(tid, &regs)
					st.injected = false
				}
				ret := int64(regs.Rax)
				if st.openPath != "" {
					if ret >= 0 && under(st.openPath) {
						fds[int(ret)] = st.openPath
					}
					st.openPath = ""
				}
				if st.cur != nil {
					st.cur.Ret = ret
					tr.Calls = append(tr.Calls, *st.cur)
					st.cur = nil
				}
			}
			syscall.PtraceSyscall(tid, 0)
			continue
		}
		if sig == syscall.SIGTRAP {
			// clone/fork event or exec
			ev := int(ws) >> 16
			if ev == syscall.PTRACE_EVENT_CLONE || ev == syscall.PTRACE_EVENT_FORK || ev == syscall.PTRACE_EVENT_VFORK {
				if nt, err := syscall.PtraceGetEventMsg(tid); err == nil {
					if threads[int(nt)] == nil {
						threads[int(nt)] = &tstate{}
					}
				}
			}
			syscall.PtraceSyscall(tid, 0)
			continue
		}
		if sig == syscall.SIGSTOP {
			// new thread's initial stop
			syscall.PtraceSyscall(tid, 0)
			continue
		}
		// forward any other signal
		syscall.PtraceSyscall(tid, int(sig))
	}
	b, _ := json.MarshalIndent(&tr, "", " ")
	os.WriteFile(filepath.Join(*out, "trace.json"), b, 0644)
	if !tr.Ended {
		os.Exit(3)
	}
	os.Exit(exitCode)
}

// ---------------------------------------------------------------- sparse copy (same as the harness')

func dataRanges(f *os.File, size int64) ([][2]int64, error) {
	var out [][2]int64
	off := int64(0)
	for off < size {
		d, err := syscall.Seek(int(f.Fd()), off, 3)
		if err != nil {
			if err == syscall.ENXIO {
				break
			}
			return nil, err
		}
		h, err := syscall.Seek(int(f.Fd()), d, 4)
		if err != nil {
			return nil, err
		}
		if h > size {
			h = size
		}
		if d < h {
			out = append(out, [2]int64{d, h})
		}
		off = h
	}
	return out, nil
}

func copyDirSparse(src, dst string) error {
	if err := os.MkdirAll(dst, 0700); err != nil {
		return err
	}
	ents, err := os.ReadDir(src)
	if err != nil {
		return err
	}
	inodes := map[uint64]string{}
	for _, e := range ents {
		sp, dp := filepath.Join(src, e.Name()), filepath.Join(dst, e.Name())
		st, err := os.Lstat(sp)
		if err != nil {
			continue // raced with an unlink by another thread: not part of this state
		}
		if !st.Mode().IsRegular() {
			continue
		}
		ino := st.Sys().(*syscall.Stat_t).Ino
		if prev, ok := inodes[ino]; ok {
			if err := os.Link(prev, dp); err != nil {
				return err
			}
			continue
		}
		inodes[ino] = dp
		in, err := os.Open(sp)
		if err != nil {
			return err
		}
		o, err := os.OpenFile(dp, os.O_CREATE|os.O_TRUNC|os.O_WRONLY, st.Mode().Perm())
		if err != nil {
			in.Close()
			return err
		}
		o.Truncate(st.Size())
		rs, err := dataRanges(in, st.Size())
		if err == nil {
			buf := make([]byte, 64*1024)
			for _, r := range rs {
				for off := r[0]; off < r[1]; {
					n := int64(len(buf))
					if off+n > r[1] {
						n = r[1] - off
					}
					m, rerr := in.ReadAt(buf[:n], off)
					if m > 0 {
						o.WriteAt(buf[:m], off)
					}
					if m == 0 || (rerr != nil && rerr != io.EOF) {
						break
					}
					off += int64(m)
				}
			}
		}
		in.Close()
		o.Close()
	}
	return nil
}
