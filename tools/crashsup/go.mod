module verif/crashsup

go 1.19
