#!/bin/bash
# seedtest.sh <seed-id> <patch.diff> <property> [more properties...]
# Applies a seeded change to /repo, runs the given properties' quick checks, undoes it.
set -u
id=$1; patch=$2; shift 2
cd /repo || exit 2
git diff --quiet || { echo "repo dirty"; exit 2; }
git apply "$patch" || { echo "patch does not apply"; exit 2; }
export GOFLAGS=-mod=mod GOPROXY=off GOSUMDB=off
go build ./... && go test -vet=off -count=1 ./util/... >/dev/null 2>&1 && echo "seed $id: builds, baseline passes" || echo "seed $id: BUILD/BASELINE FAILS"
cd /verif
export VERIF_EVIDENCE_DIR=/tmp/seedtest-evidence VERIF_REPLAY_DIR=/tmp/seedtest-replays
mkdir -p $VERIF_EVIDENCE_DIR $VERIF_REPLAY_DIR
for p in "$@"; do
  out=$(VERIF_BUDGET=${BUDGET:-60} ./check $p --tier quick 2>&1 | grep -v "^    ")
  echo "$out" | grep "^check\|^  C\|KNOWN\|UNREP" | head -6 | cut -c1-400
  if echo "$out" | grep -q "^VIOLATION"; then echo "RESULT seed=$id property=$p CAUGHT"; else echo "RESULT seed=$id property=$p MISSED"; fi
done
git -C /repo checkout -- .
