#!/bin/bash
# seedtest.sh <seed-id> <patch.diff> <property> [more properties...]
# Applies a seeded change to a private scratch worktree of /repo's HEAD (so /repo itself, which background
# sweeps may be using, stays untouched; equivalent to `git -C /repo apply` + `checkout -- .`), runs the given
# properties' quick checks against that tree (VERIF_REPO) and removes the worktree.
# Evidence and replays of these runs go to /tmp, never into the committed directories.
set -u
id=$1; patch=$(readlink -f "$2"); shift 2
ROOT=$(cd "$(dirname "$(readlink -f "$0")")/.." && pwd)
wt=/tmp/seedtest-wt-$id-$$
git -C /repo worktree add -q --detach "$wt" HEAD || exit 2
trap 'git -C /repo worktree remove --force "$wt" >/dev/null 2>&1; rm -rf "$wt"' EXIT
cd "$wt" || exit 2
git apply "$patch" || { echo "patch does not apply"; exit 2; }
export GOFLAGS=-mod=mod GOPROXY=off GOSUMDB=off
go build ./... && go test -vet=off -count=1 ./util/... >/dev/null 2>&1 && echo "seed $id: builds, baseline passes" || echo "seed $id: BUILD/BASELINE FAILS"
cd "$ROOT"
export VERIF_REPO=$wt VERIF_EVIDENCE_DIR=/tmp/seedtest-evidence VERIF_REPLAY_DIR=/tmp/seedtest-replays
mkdir -p $VERIF_EVIDENCE_DIR $VERIF_REPLAY_DIR
for p in "$@"; do
  out=$(VERIF_BUDGET=${BUDGET:-60} ./check $p --tier quick 2>&1 | grep -v "^    ")
  echo "$out" | grep "^check\|^  C\|KNOWN\|UNREP" | head -6 | cut -c1-400
  if echo "$out" | grep -q "^VIOLATION"; then echo "RESULT seed=$id property=$p CAUGHT"; else echo "RESULT seed=$id property=$p MISSED"; fi
done
