// instrument rewrites a scratch copy of the jiva working tree so that every
// source of nondeterminism goes through verif/simrt. It never touches /repo.
//
//	instrument <scratch-jiva-dir> <simrt-dir>
//
// Rules (DESIGN.md section 1.1):
//
//	R1 sync.Mutex / sync.RWMutex            -> simrt.Mutex / simrt.RWMutex
//	R2 go f(x)                              -> simrt.Go(func(){ f(x) }) with go-statement argument evaluation
//	R3 for k, v := range <map>              -> iteration over simrt.Keys(map, site)
//	R4 net.Dial, net.ListenTCP, net.TCPConn, http.ListenAndServe -> simrt equivalents
//	R5 selected package-level variables     -> *simrt.NodeVar(key, &X)
//	R8 time.Sleep / time.After / time.NewTicker -> simrt equivalents (tracked, stoppable)
//	R9 uuid.NewV4 / uuid.New                -> simrt.NewUUID (seeded, per node)
//	R10 replica.(*Replica).openFile         -> result wrapped by simrt.WrapDisk (data-file fault seam)
//	R11 for-loops that poll with time.Sleep  -> simrt.PollPoint() at the top of the body (the condition is read at quiescence)
//	R12 select with several receive cases    -> switch over simrt.Select(site, chans...): keyed choice among ready cases
//	R6 error-inject/default.go              -> hooks calling simrt.Hook
//	R7 app: RegisterFrontend helper
//
// Exit status 2 on any problem (never silently skip a site).
package main

import (
	"bytes"
	"fmt"
	"go/ast"
	"go/format"
	"go/token"
	"go/types"
	"os"
	"path/filepath"
	"sort"
	"strconv"
	"strings"

	"golang.org/x/tools/go/ast/astutil"
	"golang.org/x/tools/go/packages"
)

const modPath = "github.com/openebs/jiva"
const simrtPath = "verif/simrt"

// per-node globals: package path -> var names
var nodeVars = map[string][]string{
	modPath + "/replica":      {"HoleCreatorChan", "ActionChannel", "StartTime"},
	modPath + "/types":        {"DrainOps", "ShouldPunchHoles", "MaxChainLength"},
	modPath + "/sync/rebuild": {"Info"},
}

func die(format string, a ...interface{}) {
	fmt.Fprintf(os.Stderr, "instrument: "+format+"\n", a...)
	os.Exit(2)
}

type stats struct {
	mutex, gostmt, maprange, net, nodevar, timer, disk, poll, sel int
}

func main() {
	if len(os.Args) != 3 {
		die("usage: instrument <scratch-jiva-dir> <simrt-dir>")
	}
	dir, simrtDir := os.Args[1], os.Args[2]
	cfg := &packages.Config{
		Mode: packages.NeedName | packages.NeedFiles | packages.NeedSyntax | packages.NeedTypes |
			packages.NeedTypesInfo | packages.NeedImports | packages.NeedCompiledGoFiles,
		Dir:  dir,
		Env:  append(os.Environ(), "GOFLAGS=-mod=mod", "GOPROXY=off", "GOSUMDB=off"),
		Fset: token.NewFileSet(),
	}
	pkgs, err := packages.Load(cfg, "./...")
	if err != nil {
		die("load: %v", err)
	}
	bad := false
	for _, p := range pkgs {
		for _, e := range p.Errors {
			fmt.Fprintf(os.Stderr, "instrument: %s: %v\n", p.PkgPath, e)
			bad = true
		}
	}
	if bad {
		die("packages have errors before instrumentation")
	}
	// resolve node var objects
	targets := map[types.Object]string{}
	for _, p := range pkgs {
		if names, ok := nodeVars[p.PkgPath]; ok {
			for _, n := range names {
				obj := p.Types.Scope().Lookup(n)
				if obj == nil {
					die("per-node variable %s.%s not found", p.PkgPath, n)
				}
				targets[obj] = p.Name + "." + n
			}
		}
	}
	if len(targets) != 7 {
		die("expected 7 per-node variables, resolved %d", len(targets))
	}
	var st stats
	for _, p := range pkgs {
		if !strings.HasPrefix(p.PkgPath, modPath) {
			continue
		}
		if p.PkgPath == modPath+"/error-inject" {
			continue
		}
		for i, f := range p.Syntax {
			name := p.CompiledGoFiles[i]
			if strings.HasSuffix(name, "_test.go") {
				continue
			}
			rel, _ := filepath.Rel(dir, name)
			changed := rewriteFile(cfg.Fset, p, f, rel, targets, &st)
			if changed {
				var buf bytes.Buffer
				if err := format.Node(&buf, cfg.Fset, f); err != nil {
					die("format %s: %v", rel, err)
				}
				if err := os.WriteFile(name, buf.Bytes(), 0644); err != nil {
					die("write %s: %v", rel, err)
				}
			}
		}
	}
	// R6
	if err := os.WriteFile(filepath.Join(dir, "error-inject", "default.go"), []byte(injectSrc), 0644); err != nil {
		die("R6: %v", err)
	}
	os.Remove(filepath.Join(dir, "error-inject", "inject.go"))
	// R7
	if err := os.WriteFile(filepath.Join(dir, "app", "zz_sim_frontend.go"), []byte(frontendSrc), 0644); err != nil {
		die("R7: %v", err)
	}
	// go.mod
	gm, err := os.ReadFile(filepath.Join(dir, "go.mod"))
	if err != nil {
		die("go.mod: %v", err)
	}
	abs, _ := filepath.Abs(simrtDir)
	gm = append(gm, []byte("\nrequire "+simrtPath+" v0.0.0\n\nreplace "+simrtPath+" => "+abs+"\n")...)
	if err := os.WriteFile(filepath.Join(dir, "go.mod"), gm, 0644); err != nil {
		die("go.mod: %v", err)
	}
	fmt.Printf("instrument: mutex=%d go=%d maprange=%d net=%d nodevar=%d timer=%d disk=%d poll=%d select=%d\n", st.mutex, st.gostmt, st.maprange, st.net, st.nodevar, st.timer, st.disk, st.poll, st.sel)
	if st.disk != 1 {
		die("R10: expected exactly one replica.openFile returning sparse.NewDirectFileIoProcessor(...), rewrote %d", st.disk)
	}
	if st.timer < 50 || st.mutex < 10 || st.gostmt < 20 || st.maprange < 25 || st.net < 5 || st.nodevar < 15 {
		die("suspiciously few rewrite sites; refusing to continue")
	}
}

func pkgNameOf(info *types.Info, x ast.Expr) string {
	id, ok := x.(*ast.Ident)
	if !ok {
		return ""
	}
	if pn, ok := info.Uses[id].(*types.PkgName); ok {
		return pn.Imported().Path()
	}
	return ""
}

func simple(e ast.Expr) bool {
	switch x := e.(type) {
	case *ast.Ident:
		return true
	case *ast.SelectorExpr:
		return simple(x.X)
	case *ast.IndexExpr:
		return simple(x.X) && simple(x.Index)
	case *ast.ParenExpr:
		return simple(x.X)
	case *ast.StarExpr:
		return simple(x.X)
	case *ast.BasicLit:
		return true
	}
	return false
}

func rewriteFile(fset *token.FileSet, p *packages.Package, f *ast.File, rel string, targets map[types.Object]string, st *stats) bool {
	info := p.TypesInfo
	changed := false
	needSimrt := false
	tmp := 0

	sel := func(name string) *ast.SelectorExpr {
		needSimrt = true
		return &ast.SelectorExpr{X: ast.NewIdent("simrt"), Sel: ast.NewIdent(name)}
	}
	nodeVarExpr := func(key string, ref ast.Expr) ast.Expr {
		st.nodevar++
		return &ast.ParenExpr{X: &ast.StarExpr{X: &ast.CallExpr{
			Fun:  sel("NodeVar"),
			Args: []ast.Expr{&ast.BasicLit{Kind: token.STRING, Value: strconv.Quote(key)}, &ast.UnaryExpr{Op: token.AND, X: ref}},
		}}}
	}

	pre := func(c *astutil.Cursor) bool {
		switch n := c.Node().(type) {
		case *ast.FuncDecl:
			// R10
			if p.PkgPath == modPath+"/replica" && n.Name.Name == "openFile" && n.Recv != nil && n.Body != nil {
				for _, s := range n.Body.List {
					if rs, ok := s.(*ast.ReturnStmt); ok && len(rs.Results) == 1 {
						if call, ok := rs.Results[0].(*ast.CallExpr); ok {
							if se, ok := call.Fun.(*ast.SelectorExpr); ok && se.Sel.Name == "NewDirectFileIoProcessor" {
								rs.Results[0] = &ast.CallExpr{Fun: sel("WrapDisk"), Args: []ast.Expr{call}}
								st.disk++
								changed = true
							}
						}
					}
				}
			}
		case *ast.SelectorExpr:
			// R5 via pkg.Name
			if obj := info.Uses[n.Sel]; obj != nil {
				if key, ok := targets[obj]; ok {
					if _, isPkg := info.Uses[identOf(n.X)].(*types.PkgName); isPkg {
						c.Replace(nodeVarExpr(key, &ast.SelectorExpr{X: n.X, Sel: n.Sel}))
						changed = true
						return false
					}
				}
			}
			switch pkgNameOf(info, n.X) {
			case "sync":
				if n.Sel.Name == "Mutex" || n.Sel.Name == "RWMutex" {
					c.Replace(sel(n.Sel.Name))
					st.mutex++
					changed = true
					return false
				}
			case "net":
				if n.Sel.Name == "Dial" || n.Sel.Name == "ListenTCP" || n.Sel.Name == "TCPConn" {
					c.Replace(sel(n.Sel.Name))
					st.net++
					changed = true
					return false
				}
			case "time":
				if n.Sel.Name == "Sleep" || n.Sel.Name == "After" || n.Sel.Name == "NewTicker" {
					c.Replace(sel(n.Sel.Name))
					st.timer++
					changed = true
					return false
				}
				if n.Sel.Name == "NewTimer" || n.Sel.Name == "Tick" || n.Sel.Name == "AfterFunc" {
					die("%s: time.%s is not handled by R8", fset.Position(n.Pos()), n.Sel.Name)
				}
			case "github.com/satori/go.uuid":
				if n.Sel.Name == "NewV4" {
					c.Replace(sel("NewUUID"))
					st.net++
					changed = true
					return false
				}
			case "github.com/google/uuid":
				if n.Sel.Name == "New" {
					c.Replace(sel("NewUUID"))
					st.net++
					changed = true
					return false
				}
			case "net/http":
				if n.Sel.Name == "ListenAndServe" {
					c.Replace(sel(n.Sel.Name))
					st.net++
					changed = true
					return false
				}
			}
		case *ast.Ident:
			if obj := info.Uses[n]; obj != nil {
				if key, ok := targets[obj]; ok {
					// bare use inside the declaring package (selector uses are handled above)
					if _, isField := c.Parent().(*ast.SelectorExpr); isField && c.Name() == "Sel" {
						return true
					}
					c.Replace(nodeVarExpr(key, ast.NewIdent(n.Name)))
					changed = true
					return false
				}
			}
		}
		return true
	}

	post := func(c *astutil.Cursor) bool {
		switch n := c.Node().(type) {
		case *ast.ForStmt:
			// R11: a loop that polls with Sleep reads state that other goroutines write without
			// synchronisation (holeDrainer's flag, rpc Client.Close's readExit/writeExit, ...). Whether
			// it sees a write made in the same quiescent step would depend on the Go scheduler; a
			// poll point (1 ns of simulated time) makes it read after everybody else has run.
			// (only loops whose body sleeps unconditionally, as a direct statement: `for { if done { break }; Sleep(d) }`;
			// a Sleep nested in an error branch - the puncher's retry - does not make its loop a poller)
			polls := false
			for _, x := range n.Body.List {
				if es, ok := x.(*ast.ExprStmt); ok {
					if ce, ok := es.X.(*ast.CallExpr); ok {
						if se, ok := ce.Fun.(*ast.SelectorExpr); ok && se.Sel.Name == "Sleep" {
							if id, ok := se.X.(*ast.Ident); ok && id.Name == "simrt" {
								polls = true
							}
						}
					}
				}
			}
			if polls {
				n.Body.List = append([]ast.Stmt{&ast.ExprStmt{X: &ast.CallExpr{Fun: sel("PollPoint")}}}, n.Body.List...)
				st.poll++
				changed = true
			}
		case *ast.SelectStmt:
			// R12: several receive cases -> keyed choice among the ready ones (simrt.Select)
			if len(n.Body.List) < 2 {
				return true
			}
			hasDefault := false
			for _, cc := range n.Body.List {
				if cc.(*ast.CommClause).Comm == nil {
					hasDefault = true
				}
			}
			if hasDefault {
				if len(n.Body.List) > 2 {
					die("%s: R12: select with default and several cases", fset.Position(n.Pos()))
				}
				return true // one case + default: nothing to choose
			}
			if _, labeled := c.Parent().(*ast.LabeledStmt); labeled {
				die("%s: R12: labeled select", fset.Position(n.Pos()))
			}
			tmp++
			pos := fset.Position(n.Pos())
			site := fmt.Sprintf("%s:%d", rel, pos.Line)
			iv := ast.NewIdent(fmt.Sprintf("__simi%d", tmp))
			vv := ast.NewIdent(fmt.Sprintf("__simv%d", tmp))
			var pro []ast.Stmt
			args := []ast.Expr{&ast.BasicLit{Kind: token.STRING, Value: strconv.Quote(site)}}
			var clauses []ast.Stmt
			for k, ccs := range n.Body.List {
				cc := ccs.(*ast.CommClause)
				cn := ast.NewIdent(fmt.Sprintf("__simc%d_%d", tmp, k))
				var recv *ast.UnaryExpr
				var body []ast.Stmt
				body = append(body, &ast.AssignStmt{Lhs: []ast.Expr{ast.NewIdent("_")}, Tok: token.ASSIGN, Rhs: []ast.Expr{vv}})
				switch cm := cc.Comm.(type) {
				case *ast.ExprStmt:
					recv, _ = cm.X.(*ast.UnaryExpr)
				case *ast.AssignStmt:
					if len(cm.Lhs) == 1 && len(cm.Rhs) == 1 {
						recv, _ = cm.Rhs[0].(*ast.UnaryExpr)
						if id, ok := cm.Lhs[0].(*ast.Ident); !(ok && id.Name == "_") {
							body = append(body, &ast.AssignStmt{Lhs: cm.Lhs, Tok: cm.Tok, Rhs: []ast.Expr{
								&ast.CallExpr{Fun: sel("RecvAs"), Args: []ast.Expr{cn, vv}}}})
						}
					}
				}
				if recv == nil || recv.Op != token.ARROW {
					die("%s: R12: select case that is not a plain receive", fset.Position(cc.Pos()))
				}
				pro = append(pro, &ast.AssignStmt{Lhs: []ast.Expr{cn}, Tok: token.DEFINE, Rhs: []ast.Expr{recv.X}})
				args = append(args, cn)
				var list []ast.Expr // the last case is `default:` so that a select whose cases all return stays a terminating statement
				if k < len(n.Body.List)-1 {
					list = []ast.Expr{&ast.BasicLit{Kind: token.INT, Value: strconv.Itoa(k)}}
				}
				clauses = append(clauses, &ast.CaseClause{List: list, Body: append(body, cc.Body...)})
			}
			sw := &ast.SwitchStmt{
				Init: &ast.AssignStmt{Lhs: []ast.Expr{iv, vv}, Tok: token.DEFINE, Rhs: []ast.Expr{&ast.CallExpr{Fun: sel("Select"), Args: args}}},
				Tag:  iv,
				Body: &ast.BlockStmt{List: clauses},
			}
			c.Replace(&ast.BlockStmt{List: append(pro, sw)})
			st.sel++
			changed = true
		case *ast.GoStmt:
			st.gostmt++
			changed = true
			call := n.Call
			if lit, ok := call.Fun.(*ast.FuncLit); ok && len(call.Args) == 0 {
				c.Replace(&ast.ExprStmt{X: &ast.CallExpr{Fun: sel("Go"), Args: []ast.Expr{lit}}})
				return true
			}
			var stmts []ast.Stmt
			tmp++
			fname := fmt.Sprintf("__simf%d", tmp)
			stmts = append(stmts, &ast.AssignStmt{Lhs: []ast.Expr{ast.NewIdent(fname)}, Tok: token.DEFINE, Rhs: []ast.Expr{call.Fun}})
			var args []ast.Expr
			for i, a := range call.Args {
				tv := info.Types[a]
				if tv.Value != nil || tv.IsNil() || tv.IsType() {
					args = append(args, a)
					continue
				}
				if tup, ok := tv.Type.(*types.Tuple); ok && tup.Len() != 1 {
					die("%s: go statement with multi-value argument not supported", fset.Position(n.Pos()))
				}
				an := fmt.Sprintf("__sima%d_%d", tmp, i)
				stmts = append(stmts, &ast.AssignStmt{Lhs: []ast.Expr{ast.NewIdent(an)}, Tok: token.DEFINE, Rhs: []ast.Expr{a}})
				args = append(args, ast.NewIdent(an))
			}
			inner := &ast.CallExpr{Fun: ast.NewIdent(fname), Args: args, Ellipsis: call.Ellipsis}
			if call.Ellipsis != token.NoPos {
				inner.Ellipsis = 1
			}
			stmts = append(stmts, &ast.ExprStmt{X: &ast.CallExpr{Fun: sel("Go"), Args: []ast.Expr{
				&ast.FuncLit{Type: &ast.FuncType{Params: &ast.FieldList{}}, Body: &ast.BlockStmt{List: []ast.Stmt{&ast.ExprStmt{X: inner}}}},
			}}})
			c.Replace(&ast.BlockStmt{List: stmts})
		case *ast.RangeStmt:
			tv, ok := info.Types[n.X]
			if !ok {
				return true
			}
			if _, isMap := tv.Type.Underlying().(*types.Map); !isMap {
				return true
			}
			if !simple(n.X) {
				die("%s: range over non-simple map expression", fset.Position(n.Pos()))
			}
			pos := fset.Position(n.Pos())
			site := fmt.Sprintf("%s:%d", rel, pos.Line)
			st.maprange++
			changed = true
			keys := &ast.CallExpr{Fun: sel("Keys"), Args: []ast.Expr{n.X, &ast.BasicLit{Kind: token.STRING, Value: strconv.Quote(site)}}}
			if n.Key == nil && n.Value == nil {
				n.X = keys
				return true
			}
			isBlank := func(e ast.Expr) bool {
				if e == nil {
					return true
				}
				id, ok := e.(*ast.Ident)
				return ok && id.Name == "_"
			}
			// value variable captured by a closure? (per-iteration copy would differ from go1.19 semantics)
			if !isBlank(n.Value) && n.Tok == token.DEFINE {
				vobj := info.Defs[n.Value.(*ast.Ident)]
				captured := false
				ast.Inspect(n.Body, func(x ast.Node) bool {
					if fl, ok := x.(*ast.FuncLit); ok {
						ast.Inspect(fl.Body, func(y ast.Node) bool {
							if id, ok := y.(*ast.Ident); ok && info.Uses[id] == vobj {
								captured = true
							}
							return true
						})
					}
					return true
				})
				if captured {
					die("%s: map range value captured by closure", pos)
				}
			}
			tmp++
			var prologue []ast.Stmt
			var keyIdent ast.Expr
			if n.Tok == token.DEFINE && !isBlank(n.Key) {
				keyIdent = n.Key
			} else {
				keyIdent = ast.NewIdent(fmt.Sprintf("__simk%d", tmp))
				if !isBlank(n.Key) { // ASSIGN form
					prologue = append(prologue, &ast.AssignStmt{Lhs: []ast.Expr{n.Key}, Tok: token.ASSIGN, Rhs: []ast.Expr{keyIdent}})
				}
			}
			if !isBlank(n.Value) {
				okn := ast.NewIdent(fmt.Sprintf("__simok%d", tmp))
				idx := &ast.IndexExpr{X: n.X, Index: keyIdent}
				if n.Tok == token.DEFINE {
					prologue = append(prologue, &ast.AssignStmt{Lhs: []ast.Expr{n.Value, okn}, Tok: token.DEFINE, Rhs: []ast.Expr{idx}})
				} else {
					vt := ast.NewIdent(fmt.Sprintf("__simv%d", tmp))
					prologue = append(prologue, &ast.AssignStmt{Lhs: []ast.Expr{vt, okn}, Tok: token.DEFINE, Rhs: []ast.Expr{idx}})
					prologue = append(prologue, &ast.AssignStmt{Lhs: []ast.Expr{n.Value}, Tok: token.ASSIGN, Rhs: []ast.Expr{vt}})
				}
				prologue = append(prologue, &ast.IfStmt{Cond: &ast.UnaryExpr{Op: token.NOT, X: okn}, Body: &ast.BlockStmt{List: []ast.Stmt{&ast.BranchStmt{Tok: token.CONTINUE}}}})
			} else if n.Tok == token.DEFINE && !isBlank(n.Key) {
				// deleted-during-iteration entries must not be produced
				okn := ast.NewIdent(fmt.Sprintf("__simok%d", tmp))
				prologue = append(prologue, &ast.AssignStmt{Lhs: []ast.Expr{ast.NewIdent("_"), okn}, Tok: token.DEFINE, Rhs: []ast.Expr{&ast.IndexExpr{X: n.X, Index: keyIdent}}})
				prologue = append(prologue, &ast.IfStmt{Cond: &ast.UnaryExpr{Op: token.NOT, X: okn}, Body: &ast.BlockStmt{List: []ast.Stmt{&ast.BranchStmt{Tok: token.CONTINUE}}}})
			}
			n.Key = ast.NewIdent("_")
			n.Value = keyIdent
			n.Tok = token.DEFINE
			n.X = keys
			n.Body.List = append(prologue, n.Body.List...)
		}
		return true
	}
	astutil.Apply(f, pre, post)
	if !changed {
		return false
	}
	if needSimrt {
		astutil.AddImport(fset, f, simrtPath)
	}
	for _, imp := range []string{"sync", "net", "net/http", "time", "github.com/satori/go.uuid", "github.com/google/uuid"} {
		if !usesImport(f, imp) {
			name := ""
			for _, is := range f.Imports {
				if p, _ := strconv.Unquote(is.Path.Value); p == imp && is.Name != nil {
					name = is.Name.Name
				}
			}
			astutil.DeleteNamedImport(fset, f, name, imp)
		}
	}
	return true
}

func identOf(e ast.Expr) *ast.Ident {
	id, _ := e.(*ast.Ident)
	if id == nil {
		return ast.NewIdent("_")
	}
	return id
}

// usesImport: is there any selector X.Sel left whose X is the local name of path?
func usesImport(f *ast.File, path string) bool {
	local := ""
	for _, imp := range f.Imports {
		if p, _ := strconv.Unquote(imp.Path.Value); p == path {
			if imp.Name != nil {
				local = imp.Name.Name
			} else {
				local = path[strings.LastIndex(path, "/")+1:]
				if path == "github.com/satori/go.uuid" {
					local = "uuid"
				}
			}
		}
	}
	if local == "" {
		return true // not imported: nothing to delete
	}
	if local == "_" || local == "." {
		return true
	}
	used := false
	ast.Inspect(f, func(n ast.Node) bool {
		if s, ok := n.(*ast.SelectorExpr); ok {
			if id, ok := s.X.(*ast.Ident); ok && id.Name == local && id.Obj == nil {
				used = true
			}
		}
		return true
	})
	return used
}

var _ = sort.Strings

const injectSrc = `// Code generated by /verif/tools/instrument (R6). Simulator-owned fault points.
package inject

import "verif/simrt"

var Envs map[string](map[string]bool)

func AddTimeout() { simrt.Hook("AddTimeout") }

func AddPingTimeout() { simrt.Hook("AddPingTimeout") }

func AddPreloadTimeout() { simrt.Hook("AddPreloadTimeout") }

func AddPunchHoleTimeout() { simrt.Hook("AddPunchHoleTimeout") }

func DisablePunchHoles() bool { return simrt.HookBool("DisablePunchHoles") }

func PanicAfterPrepareRebuild() { simrt.Hook("PanicAfterPrepareRebuild") }

func PanicWhileSettingCheckpoint(addr string) { simrt.Hook("PanicWhileSettingCheckpoint", addr) }

var UpdateLUNMapTimeoutTriggered bool

func AddUpdateLUNMapTimeout() { simrt.Hook("AddUpdateLUNMapTimeout") }
`

const frontendSrc = `// Code generated by /verif/tools/instrument (R7).
package app

import "github.com/openebs/jiva/types"

// RegisterFrontend lets the simulation harness install its fake frontend.
func RegisterFrontend(name string, f types.Frontend) { frontends[name] = f }
`
