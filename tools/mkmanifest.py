#!/usr/bin/env python3
"""Regenerates /verif/MANIFEST.json from the table below (single source of truth)."""
import json, os
V = os.path.dirname(os.path.dirname(os.path.abspath(__file__)))
props = [json.loads(l) for l in open(os.path.join(V, "properties.jsonl"))]

REPSIM_NOTE = ("Trusted base: the instrumenter's rewrites (simrt locks/go/map order/timers) preserve jiva semantics; the sandbox's ext4 "
               "behaves like production for FIEMAP, O_DIRECT and punch-hole; the reference model (byte array + snapshot images) is right. "
               "Samples histories; not exhaustive.")
CLUSTER_NOTE = ("Trusted base: the instrumenter's rewrites and simrt (locks with quiescence-time arbitration, simulated TCP/HTTP, timers); the "
                "stubs listed in the evidence file (iSCSI frontend = workload, sync-agent/ssync/sfold = in-simulator sparse copier with the same REST contract, "
                "startController wiring); process death = goroutines parked + fds nulled + directory renamed. Samples schedules and fault sequences.")
CHECKS = {
 "C01": dict(engine="repsim", design="4 C01, 3.1", technique="deterministic simulation: seeded operation histories + puncher schedule vs. byte-array reference model",
   text="Seeded search over histories of writes/reads of every alignment, snapshots, removals, reverts, resize, reopen (preload on/off) and hole-puncher schedules on one real replica (real files, real FIEMAP/punch-hole) inside a fake-clock bubble; every read and a full-volume read after each chain mutation and after reopen are compared with a byte-array model. Finds short counter-examples (3-6 ops) for map/extent bugs; gives sampled, not exhaustive, assurance. The controller-side range check is exercised by the cluster engine when built."),
 "C06": dict(engine="repsim", design="4 C06, 3.1", technique="deterministic simulation: snapshot images re-read by an independent on-disk reader after every step, lagging/eager puncher",
   text="Every retained user-created snapshot is re-read after each step through an independent extent walker (SEEK_DATA based, not jiva's read path) and compared with the image recorded when it was taken, with reclamation on and the hole puncher either eager or held back and released by the script; revert on the live replica must read back the image. This is the conjunction (multi-block write x cached block map x reclamation) that example tests miss; it found the fullWriteAt defect (fixed)."),
 "C10": dict(engine="repsim", design="4 C10", technique="deterministic simulation: counter model incl. concurrent writers released in seeded order",
   text="A counter model (+1 per successful RW write, +0 in WO, explicit set only in RW, unchanged by everything else, equal after close/open) is compared with the persisted counter after every operation, including batches of concurrent writers whose lock hand-off order is decided by the simulator. Crash clauses and cross-replica equality belong to the crash and cluster engines."),
 "C11": dict(engine="repsim", design="4 C11", technique="deterministic simulation: deletion sequences (prepare, coalesce, remove) and cleaner candidate filter vs. model",
   text="Snapshot deletion is driven exactly as the controller/cleaner do it (prepareremovedisk, coalesce with the real FoldFile, removedisk) at random chain positions and via the real candidate function; live data and every other retained user snapshot are compared before/after the fold and after the remove; protected disks must be refused; every candidate returned by GetDeleteCandidateChain is checked against the filter stated in the property."),
 "C12": dict(engine="repsim", design="4 C12", technique="deterministic simulation: chain invariants after every op, refused ops are no-ops (chain-scoped digest), reopen fixpoint",
   text="After every operation, valid or invalid (duplicate names, unknown names, protected disks, wrong mode), the in-memory chain, the on-disk metadata walk and the model chain must agree, every member must have both files, a refused/failed operation must leave chain, data, counter and the chain's files untouched, and close+open must reproduce chain, attributes and data. Found the duplicate-name cleanup defect (fixed)."),
 "C16": dict(engine="repsim", design="4 C16", technique="deterministic simulation: resize interleaved with I/O, snapshots and reopen vs. model with growth",
   text="Grow/equal/shrink requests interleaved with all other operations: after growth old bytes and snapshot images are unchanged, the new range reads zero and takes writes, the size persists across reopen; shrink must be refused with no effect (chain-scoped digest). Controller-level refusal belongs to the cluster engine."),
 "C17": dict(engine="repsim", design="4 C17", technique="deterministic simulation: random state-transition prefixes then engine calls and unadvertised REST actions, side-effect digests",
   text="Random open/close/mode/rebuilding transitions followed by engine calls and REST actions: writes change data only when open and RW/WO, nothing is served when closed, removal and set-revision-counter need RW, and every REST action that GET /v1/replicas/1 does not advertise for the current state must be refused (status>=400) without side effects (chain, data, counter, mode, files). Found the write-before-mode-check defect (fixed). Attach-only-when-closed belongs to the cluster engine."),
 "C15": dict(engine="rpcsim", design="4 C15, 3.5", technique="deterministic simulation: real rpc.Client vs scripted peer (reply order, error/EOF/unknown/duplicate replies, reset, FIN, torn/corrupt frames, black holes) + codec round trip under arbitrary segmentation",
   note="Trusted base: the simulated TCP stream (FIFO, no loss inside a stream) and the harness's independent frame parser; rpc timeouts run on the bubble's fake clock. Samples schedules and fault points; not exhaustive.",
   text="The real rpc.Client runs over a simulated connection against a scripted peer that answers pending requests in script-chosen order and kind, and injects resets, FIN, half-close, torn and corrupt frames and one-way black holes at script-chosen points; each completed operation must carry its own reply (payload is a function of its own offset), errors must surface as errors, every pending and later operation must finish within its own deadline + 3 s of simulated time after a fault, the close channel must be notified, and with a fault-free peer everything succeeds. Wire.Write -> independent parser -> Wire.Read round-trips generated frames under 6 segmentation policies; real client against real rpc.Server with a recording DataProcessor checks end-to-end attribution."),
 "C02": dict(engine="clustersim", design="4 C02, 3.3", technique="deterministic simulation: real controller + N real replica processes on a simulated network; per-write majority oracle from replica directory images; faults inside in-flight I/O",
   note=CLUSTER_NOTE,
   text="For every initiator write the set of replicas attached when the write took effect is sampled at the controller's lock acquisition, and which replicas physically hold the write is read from their directories: an acknowledged write must be on a strict majority of the attached replicas including an RW one, replicas that missed it must be gone from the list, and after faults stop every RW replica's image must contain every acknowledged write (failed or in-flight writes are old-or-new only until the next acknowledged overwrite). Faults (kill, connection reset, one-way stall, partition, restart, disk replacement within the safe envelope) are placed inside in-flight I/O. RF 1-5. Sampled, not exhaustive. Known finding D12 (sub-4KiB write during rebuild) is reported as KNOWN-FINDING."),
 "C03": dict(engine="clustersim", design="4 C03", technique="deterministic simulation: quorum gate oracle at the controller's lock-acquisition point + bounded liveness after faults stop",
   note=CLUSTER_NOTE,
   text="At the instant each write/sync/unmap takes the controller lock the controller's own replica list is sampled: with fewer than floor(RF/2)+1 RW entries the operation must fail and no frame may leave for any replica; at every quiescent point with the lock free the ReadOnly flag must agree with the RW count; after all faults stop and membership settles (<= 900 simulated seconds) a volume with a quorum must accept a write."),
 "C04": dict(engine="clustersim", design="4 C04", technique="deterministic simulation: every read frame's target mode at send time + returned data vs. acknowledged-write register, reads during rebuild",
   note=CLUSTER_NOTE,
   text="Every read frame observed on a data connection must target a replica whose mode in the list sampled at the operation's start was RW; successful reads are compared sector by sector with the register of acknowledged writes (old-or-new only for in-doubt ranges); reads are issued while replicas fail, restart and rebuild. Known finding D12 is reported as KNOWN-FINDING when it is the cause."),
 "C05": dict(engine="clustersim", design="4 C05", technique="deterministic simulation: fault placement before send / after send / after apply / idle, detector order via simulated lock arbitration",
   note=CLUSTER_NOTE,
   text="Kills, resets, stalls and partitions land before the request is sent, after send, after apply (reply lost) or while idle (only the ping monitor can notice); a write must succeed when a majority of the attached replicas applied it and their replies were delivered, no I/O frame may go to an address outside the controller's list, and acknowledged data must stay intact (C02's image oracle)."),
 "C18": dict(engine="clustersim", design="4 C18", technique="deterministic simulation: membership invariants at every quiescent point with the controller lock free",
   note=CLUSTER_NOTE,
   text="At every quiescent point at which the controller lock is free: no duplicate address, at most RF replicas, at most one WO replica, RWReplicaCount equals the number of RW entries, ReadOnly agrees with it; every I/O frame belongs to an operation that holds the controller lock and targets a listed replica."),
}

def main():
    checks = []
    for p in props:
        c = CHECKS.get(p["id"])
        if not c: continue
        checks.append(dict(property_id=p["id"], quick_cmd="./check %s --tier quick" % p["id"], thorough_cmd="./check %s --tier thorough" % p["id"],
            evidence_file="/verif/evidence/%s.json" % p["id"], replay_cmd_template="./check %s --replay {path}" % p["id"], engine=c["engine"],
            level_claimed=dict(category=c.get("level", "exploration"), text=c["text"], design_ref="DESIGN.md section " + c["design"]),
            level_note=c.get("note", REPSIM_NOTE), technique=c["technique"]))
    na = [dict(property_id=p["id"], reason="check not built yet (work in progress; see DESIGN.md section 9); the technique applies") for p in props if p["id"] not in CHECKS]
    m = dict(version=1,
        setup_cmd="./setup.sh",
        hooks=dict(guard="none in /repo: checks instrument a scratch copy of the working tree at check time (tools/instrument, rules R1-R8); /repo carries only 'fix:' commits",
                   enable="./check <ID> copies /repo's working tree to a scratch dir, runs bin/instrument on the copy and builds the simulator against it with go1.26.8",
                   baseline_off_cmd="cd /repo && go test -vet=off -count=1 ./util/...", source_commits=[], add_only=True),
        engines=[dict(name="clustersim", path="sim/clustersim.go", serves_properties=["C02","C03","C04","C05","C18"], kind_free_text="real controller + real `jiva replica` processes on simulated TCP/HTTP with fault injection, real ext4 directories"),
                 dict(name="rpcsim", path="sim/rpcsim.go", serves_properties=["C15"], kind_free_text="real rpc.Client/Server/Wire over simulated TCP with a scripted peer"),
                 dict(name="repsim", path="sim/repsim.go", serves_properties=["C01","C06","C10","C11","C12","C16","C17"], kind_free_text="one real replica on real ext4 files in a synctest bubble, model-based, puncher schedule controlled")],
        checks=checks, not_applicable=na,
        notes="VERIF_SEED selects the search seed; VERIF_BUDGET (seconds) and VERIF_WORKERS override the tier defaults. Exit 2 = build/instrumentation/watchdog trouble.")
    json.dump(m, open(os.path.join(V, "MANIFEST.json"), "w"), indent=1)
main()
