#!/bin/bash
# confirmseed.sh <seed-id>: in the author's worktree /tmp/seedwt/<id> run the author's demonstration with the
# change applied (must fail) and with it reversed (must pass); writes /verif/seeded/<id>/confirm.log
id=$1; wt=/tmp/seedwt/$id; out=/verif/seeded/$id/confirm.log
export GOFLAGS=-mod=mod GOPROXY=off GOSUMDB=off
cd $wt || exit 2
cmd=$(grep -o "go test [^|>]*" seed_out/run_demo.sh | head -1 | sed "s/ 2$//; s/ 2 $//")
[ -n "$cmd" ] || { echo "no go test command found" > $out; exit 2; }
# make sure the demo file is in place and the change applied
sh -c "$(grep '^\[ -f' seed_out/run_demo.sh | head -1)" 2>/dev/null
git apply --check -R seed_out/patch.diff 2>/dev/null || git apply seed_out/patch.diff
{
echo "command: $cmd"
echo "== with the change"
eval "$cmd" > /tmp/confirm-$id.with 2>&1; rc1=$?
grep -a "^--- \|^FAIL\|^ok\|^PASS" /tmp/confirm-$id.with | head -20
git apply -R seed_out/patch.diff
echo "== without the change"
eval "$cmd" > /tmp/confirm-$id.without 2>&1; rc2=$?
grep -a "^--- \|^FAIL\|^ok\|^PASS" /tmp/confirm-$id.without | head -20
git apply seed_out/patch.diff
if [ $rc1 -ne 0 ] && [ $rc2 -eq 0 ]; then echo "CONFIRMED: fails with the change (rc=$rc1), passes without it"; else echo "NOT CONFIRMED: rc with=$rc1 without=$rc2"; fi
} > $out 2>&1
rm -f /tmp/confirm-$id.with /tmp/confirm-$id.without
tail -1 $out
