#!/usr/bin/env python3
"""dettest.py [N]: determinism self-test. For each engine, N generated scripts are each executed in
three separate OS processes under GOMAXPROCS 1, 4 and 16; event-trace hash, outcome shape, simulated
end time and step count must be identical. Prints one line per engine and the differing cases."""
import sys, os, json, subprocess, tempfile, shutil, concurrent.futures as cf
V = os.path.dirname(os.path.dirname(os.path.abspath(__file__)))
N = int(sys.argv[1]) if len(sys.argv) > 1 else 30
sys.path.insert(0, V)
binp = subprocess.run([os.path.join(V, "check"), "build"], capture_output=True, text=True).stdout.split()[-1]
props = [("C01", "repsim"), ("C02", "clustersim"), ("C07", "clustersim"), ("C09", "electsim"), ("C15", "rpcsim"), ("C14", "apifuzz"), ("C19", "clonesim"), ("C08", "crashsim")]
if os.environ.get("DETTEST_PROPS"): props = [x for x in props if x[0] in os.environ["DETTEST_PROPS"].split(",")]
root = tempfile.mkdtemp(prefix="dettest.")
def one(prop, eng, i, gmp):
    d = os.path.join(root, "%s-%d-%d" % (prop, i, gmp)); os.makedirs(d)
    of = os.path.join(d, "out.jsonl")
    env = dict(os.environ, GOMAXPROCS=str(gmp), VERIF_MODE="worker", VERIF_PROP=prop, VERIF_TIER="quick", VERIF_SEED="1", VERIF_WORKER="0", VERIF_WORKERS="1",
               VERIF_START=str(i), VERIF_MAXRUNS=str(i + 1), VERIF_RUNS_PER_PROC="1", VERIF_OUT=of, VERIF_ENGINE=eng, VERIF_TRACE="1", VERIF_SHRINK_S="0",
               VERIF_SCRATCH=d, TMPDIR=d, VERIF_REPLAY_DIR=d, VERIF_CRASHSUP=os.path.join(V, "bin", "crashsup"))
    subprocess.run([binp, "-test.run", "^TestSim$", "-test.timeout", "0"], env=env, cwd=d, stdout=subprocess.DEVNULL, stderr=subprocess.DEVNULL)
    r = None
    if os.path.exists(of):
        for l in open(of):
            j = json.loads(l)
            if j.get("kind") == "run": r = j.get("res") or {}
    shutil.rmtree(d, ignore_errors=True)
    if r is None: return (prop, i, gmp, None)
    return (prop, i, gmp, (r.get("trace_hash"), r.get("shape"), r.get("sim_ns"), r.get("steps"), bool(r.get("v")), r.get("other", "")[:60]))
jobs = [(p, e, i, g) for p, e in props for i in range(N) for g in (1, 4, 16)]
res = {}
with cf.ThreadPoolExecutor(max_workers=int(os.environ.get("DETTEST_PAR", "8"))) as ex:
    for prop, i, gmp, r in ex.map(lambda a: one(*a), jobs): res[(prop, i, gmp)] = r
shutil.rmtree(root, ignore_errors=True)
bad = 0
for p, e in props:
    same = diff = missing = 0
    for i in range(N):
        rs = [res[(p, i, g)] for g in (1, 4, 16)]
        if any(r is None for r in rs): missing += 1; continue
        if rs[0] == rs[1] == rs[2]: same += 1
        else:
            diff += 1; print("DIFF %s/%s run %d: %s" % (p, e, i, rs))
    bad += diff
    print("%s %s: %d scripts x 3 processes (GOMAXPROCS 1/4/16): %d identical, %d differ, %d without result" % (p, e, N, same, diff, missing))
sys.exit(1 if bad else 0)
