#!/bin/bash
# matrix.sh [budget]: re-runs every seeded change and every reverse patch against the property it breaks
# (quick tier, private worktree per run) and prints one RESULT line each.
cd "$(dirname "$(readlink -f "$0")")/.." || exit 2
export BUDGET=${1:-60}
for d in seeded/*/; do
  id=$(basename $d); [ -f $d/patch.diff ] || continue
  python3 -c "import json,sys;sys.exit(1 if json.load(open('$d/meta.json')).get('obsolete') else 0)" 2>/dev/null || { echo "SKIP seed=$id obsolete (see meta.json)"; continue; }
  prop=$(python3 -c "import json;print(json.load(open('$d/meta.json'))['breaks'])" 2>/dev/null || echo ${id%%-*})
  tools/seedtest.sh $id $d/patch.diff $prop 2>&1 | grep "RESULT\|does not apply\|FAILS"
done
for f in mutants/*-revert-fix.patch; do
  b=$(basename $f); prop=${b%%-*}; id=$(echo $b | cut -d- -f2)
  tools/seedtest.sh $id $f $prop 2>&1 | grep "RESULT\|does not apply\|FAILS"
done
