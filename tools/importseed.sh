#!/bin/bash
# importseed.sh <seed-id> <property> [more properties]: copies a sub-agent's deliverables from /tmp/seedwt/<id>/seed_out
# to /verif/seeded/<id>/, checks that the patch applies to /repo's HEAD, builds and passes the baseline, and runs the checks.
set -u
id=$1; shift
src=/tmp/seedwt/$id/seed_out
dst=/verif/seeded/$id
mkdir -p $dst; cp -r $src/* $dst/
"$(dirname "$(readlink -f "$0")")"/seedtest.sh $id $dst/patch.diff "$@" 2>&1 | tee $dst/seedtest.log
