package simrt

import (
	"sort"
	"sync"
	"time"
)

// Locks replacing sync.Mutex / sync.RWMutex in the instrumented copy.
//
// * Waiting is done on a channel created by the waiter (inside the bubble), so
//   a goroutine parked on a simulated lock is "durably blocked" for synctest.
// * When a lock with waiters is released, nobody is woken directly: the lock is
//   queued for arbitration and the event loop, at the next quiescent point,
//   grants it to a waiter chosen by a keyed hash over the waiters' (stable)
//   goroutine names. Arrival order inside a step therefore never matters.
// * Without an active World the locks degrade to FIFO hand-off.
// * RWMutex follows Go's policy exactly: a writer that has announced itself
//   blocks later readers; when it unlocks, all blocked readers are admitted
//   before the next writer. The only choice point is which queued writer goes
//   next (legal in Go: sync.Mutex allows barging).

type waiter struct {
	g  *G
	ch chan struct{}
}

func wname(w *waiter) string {
	if w.g == nil {
		return ""
	}
	return w.g.Name
}

type granter interface {
	grant(w *World)
	firstWaiter() string
}

// ---------------------------------------------------------------- Mutex

type Mutex struct {
	m       sync.Mutex
	held    bool
	pending bool // released with waiters, arbitration outstanding
	waiters []*waiter
	holder  *G
	nGrant  int
}

// strict reports whether lock acquisitions of goroutine g go through arbitration even when
// the lock is free: two goroutines that become runnable in the same quiescent step and then
// reach the same free lock would otherwise be ordered by the Go scheduler. With World.StrictLocks
// every acquisition by a simulated goroutine is queued and granted at the next quiescent point, in
// an order that depends only on the (stable) goroutine names. The driver goroutine (g == nil) is
// exempt: it is the one that runs the arbitration.
func strict(g *G) *World {
	if g == nil {
		return nil
	}
	if w := Cur(); w != nil && w.StrictLocks {
		return w
	}
	return nil
}

// jitter lets a little simulated time pass before a lock request (World.LockJitter, keyed by the
// goroutine's own sequence): without it a handler takes all its locks at one simulated instant, and
// two requests that arrive microseconds apart never interleave BETWEEN two lock acquisitions of one
// of them (check-then-act across a lock release, recursive read locks, ...).
func jitter(g *G) {
	if g == nil {
		return
	}
	w := Cur()
	if w == nil || w.LockJitter <= 0 || !w.StrictLocks {
		return
	}
	if d := time.Duration(w.Rand("lockjit:"+w.GSeq(g, "lockjit")) % uint64(w.LockJitter)); d > 0 {
		Sleep(d)
	}
}

func (l *Mutex) Lock() {
	g := enter()
	jitter(g)
	l.m.Lock()
	if sw := strict(g); sw != nil {
		w := &waiter{g: g, ch: make(chan struct{}, 1)}
		l.waiters = append(l.waiters, w)
		ask := !l.held && !l.pending
		if ask {
			l.pending = true
		}
		l.m.Unlock()
		if ask {
			sw.addGrant(l)
		}
		<-w.ch
		enterG(g)
		acquired(l, g, true)
		return
	}
	if !l.held && !l.pending && len(l.waiters) == 0 {
		l.held = true
		l.holder = g
		l.m.Unlock()
		acquired(l, g, true)
		return
	}
	w := &waiter{g: g, ch: make(chan struct{}, 1)}
	l.waiters = append(l.waiters, w)
	l.m.Unlock()
	<-w.ch
	enterG(g)
	acquired(l, g, true)
}

func (l *Mutex) TryLock() bool {
	g := enter()
	l.m.Lock()
	defer l.m.Unlock()
	if !l.held && !l.pending && len(l.waiters) == 0 {
		l.held = true
		l.holder = g
		return true
	}
	return false
}

func (l *Mutex) Unlock() {
	g := enter()
	l.m.Lock()
	if !l.held {
		l.m.Unlock()
		fatal("sync: unlock of unlocked mutex")
	}
	released(l, g, true)
	l.held = false
	l.holder = nil
	if len(l.waiters) == 0 {
		l.m.Unlock()
		return
	}
	w := Cur()
	if w == nil {
		l.grantLocked(nil)
		l.m.Unlock()
		return
	}
	l.pending = true
	l.m.Unlock()
	w.addGrant(l)
}

func (l *Mutex) firstWaiter() string {
	l.m.Lock()
	defer l.m.Unlock()
	min := ""
	for i, w := range l.waiters {
		if n := wname(w); i == 0 || n < min {
			min = n
		}
	}
	return min
}

func (l *Mutex) grant(w *World) {
	l.m.Lock()
	l.grantLocked(w)
	l.m.Unlock()
}

func (l *Mutex) grantLocked(w *World) {
	l.pending = false
	if l.held || len(l.waiters) == 0 {
		return
	}
	i := pick(w, l.waiters, &l.nGrant)
	wt := l.waiters[i]
	l.waiters = append(l.waiters[:i], l.waiters[i+1:]...)
	l.held = true
	l.holder = wt.g
	wt.ch <- struct{}{}
}

// Held reports whether the lock is held and by whom (for the lock-leak oracle).
func (l *Mutex) Held() (bool, string) {
	l.m.Lock()
	defer l.m.Unlock()
	n := ""
	if l.holder != nil {
		n = l.holder.Name
	}
	return l.held, n
}

// pick chooses a waiter: FIFO without a world; otherwise by keyed hash over the
// sorted goroutine names (stable across racy arrival orders).
func pick(w *World, ws []*waiter, n *int) int {
	if w == nil || len(ws) == 1 {
		return 0
	}
	idx := make([]int, len(ws))
	for i := range idx {
		idx[i] = i
	}
	sort.Slice(idx, func(a, b int) bool { return wname(ws[idx[a]]) < wname(ws[idx[b]]) })
	*n++
	key := "grant:" + wname(ws[idx[0]]) + ":" + itoa(*n)
	if !w.KeysPerm {
		return idx[0]
	}
	return idx[int(w.Rand(key)%uint64(len(ws)))]
}

func itoa(i int) string {
	if i == 0 {
		return "0"
	}
	var b [20]byte
	p := len(b)
	neg := i < 0
	if neg {
		i = -i
	}
	for i > 0 {
		p--
		b[p] = byte('0' + i%10)
		i /= 10
	}
	if neg {
		p--
		b[p] = '-'
	}
	return string(b[p:])
}

func acquired(l interface{}, g *G, write bool) {
	if w := Cur(); w != nil && w.OnAcquire != nil {
		w.OnAcquire(l, g, write)
	}
}

func released(l interface{}, g *G, write bool) {
	if w := Cur(); w != nil && w.OnRelease != nil {
		w.OnRelease(l, g, write)
	}
}

func (w *World) addGrant(l granter) {
	w.mu.Lock()
	w.grants = append(w.grants, l)
	w.mu.Unlock()
	w.Kick()
}

// processGrants runs at quiescence; returns true if anything was granted.
func (w *World) processGrants() bool {
	w.mu.Lock()
	gs := w.grants
	w.grants = nil
	w.mu.Unlock()
	if len(gs) == 0 {
		return false
	}
	sort.SliceStable(gs, func(i, j int) bool { return gs[i].firstWaiter() < gs[j].firstWaiter() })
	for _, l := range gs {
		l.grant(w)
	}
	return true
}

// ---------------------------------------------------------------- RWMutex

type RWMutex struct {
	m         sync.Mutex
	readers   int       // active readers
	announced bool      // a writer holds or waits for readers to drain
	writing   bool      // the announced writer holds the lock
	drain     *waiter   // the announced writer, waiting for readers to leave
	rwait     []*waiter // readers blocked behind the announced writer
	wqueue    []*waiter // writers waiting for the writer slot
	pending   bool
	holder    *G
	nGrant    int
}

func (l *RWMutex) RLock() {
	g := enter()
	jitter(g)
	l.m.Lock()
	if sw := strict(g); sw != nil {
		w := &waiter{g: g, ch: make(chan struct{}, 1)}
		l.rwait = append(l.rwait, w)
		ask := !l.announced && !l.pending // (behind an announced writer the reader is admitted by its Unlock)
		if ask {
			l.pending = true
		}
		l.m.Unlock()
		if ask {
			sw.addGrant(l)
		}
		<-w.ch
		enterG(g)
		acquired(l, g, false)
		return
	}
	if !l.announced && !l.pending {
		l.readers++
		l.m.Unlock()
		acquired(l, g, false)
		return
	}
	w := &waiter{g: g, ch: make(chan struct{}, 1)}
	l.rwait = append(l.rwait, w)
	l.m.Unlock()
	<-w.ch
	enterG(g)
	acquired(l, g, false)
}

func (l *RWMutex) RUnlock() {
	g := enter()
	l.m.Lock()
	if l.readers <= 0 {
		l.m.Unlock()
		fatal("sync: RUnlock of unlocked RWMutex")
	}
	released(l, g, false)
	l.readers--
	if l.readers == 0 && l.drain != nil {
		d := l.drain
		l.drain = nil
		l.writing = true
		l.holder = d.g
		d.ch <- struct{}{}
	}
	l.m.Unlock()
}

func (l *RWMutex) Lock() {
	g := enter()
	jitter(g)
	l.m.Lock()
	if sw := strict(g); sw != nil {
		w := &waiter{g: g, ch: make(chan struct{}, 1)}
		l.wqueue = append(l.wqueue, w)
		ask := !l.announced && !l.pending
		if ask {
			l.pending = true
		}
		l.m.Unlock()
		if ask {
			sw.addGrant(l)
		}
		<-w.ch
		enterG(g)
		acquired(l, g, true)
		return
	}
	if !l.announced && !l.pending && len(l.wqueue) == 0 {
		l.announced = true
		if l.readers == 0 {
			l.writing = true
			l.holder = g
			l.m.Unlock()
			acquired(l, g, true)
			return
		}
		w := &waiter{g: g, ch: make(chan struct{}, 1)}
		l.drain = w
		l.m.Unlock()
		<-w.ch
		enterG(g)
		acquired(l, g, true)
		return
	}
	w := &waiter{g: g, ch: make(chan struct{}, 1)}
	l.wqueue = append(l.wqueue, w)
	l.m.Unlock()
	<-w.ch
	enterG(g)
	acquired(l, g, true)
}

func (l *RWMutex) Unlock() {
	g := enter()
	l.m.Lock()
	if !l.writing {
		l.m.Unlock()
		fatal("sync: Unlock of unlocked RWMutex")
	}
	released(l, g, true)
	l.writing = false
	l.announced = false
	l.holder = nil
	// admit every reader that queued behind this writer
	for _, r := range l.rwait {
		l.readers++
		r.ch <- struct{}{}
	}
	l.rwait = nil
	if len(l.wqueue) == 0 {
		l.m.Unlock()
		return
	}
	w := Cur()
	if w == nil {
		l.grantLocked(nil)
		l.m.Unlock()
		return
	}
	l.pending = true
	l.m.Unlock()
	w.addGrant(l)
}

func (l *RWMutex) firstWaiter() string {
	l.m.Lock()
	defer l.m.Unlock()
	min := ""
	first := true
	for _, q := range [][]*waiter{l.wqueue, l.rwait} {
		for _, w := range q {
			if n := wname(w); first || n < min {
				min, first = n, false
			}
		}
	}
	return min
}

func (l *RWMutex) grant(w *World) {
	l.m.Lock()
	l.grantLocked(w)
	l.m.Unlock()
}

func (l *RWMutex) grantLocked(w *World) {
	l.pending = false
	if l.announced {
		return // readers queued behind the announced writer are admitted by its Unlock
	}
	// readers that arrived while arbitration was outstanding are admitted first
	// (they arrived after the previous writer left and before the next announced)
	for _, r := range l.rwait {
		l.readers++
		r.ch <- struct{}{}
	}
	l.rwait = nil
	if len(l.wqueue) == 0 {
		return
	}
	i := pick(w, l.wqueue, &l.nGrant)
	wt := l.wqueue[i]
	l.wqueue = append(l.wqueue[:i], l.wqueue[i+1:]...)
	l.announced = true
	if l.readers == 0 {
		l.writing = true
		l.holder = wt.g
		wt.ch <- struct{}{}
		return
	}
	l.drain = wt
}

// RLocker mirrors sync.RWMutex.RLocker.
func (l *RWMutex) RLocker() sync.Locker { return (*rlocker)(l) }

type rlocker RWMutex

func (r *rlocker) Lock()   { (*RWMutex)(r).RLock() }
func (r *rlocker) Unlock() { (*RWMutex)(r).RUnlock() }

// State reports the lock state (for the lock-leak oracle).
func (l *RWMutex) State() (writing bool, readers int, holder string, waiters int) {
	l.m.Lock()
	defer l.m.Unlock()
	n := ""
	if l.holder != nil {
		n = l.holder.Name
	}
	w := len(l.rwait) + len(l.wqueue)
	if l.drain != nil {
		w++
	}
	return l.writing, l.readers, n, w
}
