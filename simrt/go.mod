module verif/simrt

go 1.19
