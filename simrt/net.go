package simrt

import (
	"errors"
	"fmt"
	"io"
	"net"
	"os"
	"strings"
	"sync"
	"syscall"
	"time"
)

// Simulated TCP. A connection is two byte pipes. Bytes written become segments
// owned by the event queue; delivery time = max(previous delivery on this
// direction, now + latency(key)), so per-direction FIFO is preserved and no
// loss/duplication/reordering happens inside a stream (TCP semantics).
// Injected faults: latency, stall (hold), reset, half close, link down.

type SegVerdict int

const (
	SegDeliver     SegVerdict = iota
	SegHold                   // keep queued until ReleaseHeld / link heal
	SegResetBefore            // reset the connection instead of delivering
	SegResetAfter             // deliver, then reset
)

type addr struct{ s string }

func (a addr) Network() string { return "tcp" }
func (a addr) String() string  { return a.s }

type pipe struct {
	mu      sync.Mutex
	cond    *sync.Cond
	buf     []byte
	eof     bool  // writer closed its side (FIN)
	err     error // reset
	rclosed bool  // reader did CloseRead
	lastAt  time.Duration
	nseg    int
	held    []heldSeg
	holding bool
}

type heldSeg struct {
	n    int
	data []byte
	fin  bool
}

type connPair struct {
	key      string
	cNode    *Node
	sNode    *Node
	c2s, s2c *pipe
	client   *TCPConn
	server   *TCPConn
	w        *World
	reset    bool
}

// TCPConn replaces *net.TCPConn in the instrumented copy (type assertions in
// rpc/wire.go are rewritten to this type).
type TCPConn struct {
	p        *connPair
	isClient bool
	rd, wr   *pipe
	local    addr
	remote   addr
	closed   bool
	dl       time.Time
}

func newPipe() *pipe { p := &pipe{}; p.cond = sync.NewCond(&p.mu); return p }

func (c *TCPConn) Key() string          { return c.p.key }
func (c *TCPConn) IsClient() bool       { return c.isClient }
func (c *TCPConn) ClientNode() *Node    { return c.p.cNode }
func (c *TCPConn) ServerNode() *Node    { return c.p.sNode }
func (c *TCPConn) LocalAddr() net.Addr  { return c.local }
func (c *TCPConn) RemoteAddr() net.Addr { return c.remote }

func (c *TCPConn) SetDeadline(t time.Time) error          { return nil }
func (c *TCPConn) SetReadDeadline(t time.Time) error      { return nil }
func (c *TCPConn) SetWriteDeadline(t time.Time) error     { return nil }
func (c *TCPConn) SetKeepAlive(bool) error                { return nil }
func (c *TCPConn) SetKeepAlivePeriod(time.Duration) error { return nil }
func (c *TCPConn) SetNoDelay(bool) error                  { return nil }

var errReset = &net.OpError{Op: "read", Net: "tcp", Err: os.NewSyscallError("read", syscall.ECONNRESET)}
var errClosed = errors.New("use of closed network connection")

func (c *TCPConn) Read(b []byte) (int, error) {
	enter()
	p := c.rd
	p.mu.Lock()
	defer p.mu.Unlock()
	for {
		if c.closed || p.rclosed {
			if len(p.buf) == 0 {
				if c.closed {
					return 0, errClosed
				}
				return 0, io.EOF
			}
		}
		if len(p.buf) > 0 {
			n := copy(b, p.buf)
			p.buf = p.buf[n:]
			return n, nil
		}
		if p.err != nil {
			return 0, p.err
		}
		if p.eof {
			return 0, io.EOF
		}
		p.cond.Wait()
		if g := CurG(); g != nil && g.Node != nil && g.Node.dead {
			p.mu.Unlock()
			parkForever(c.p.w)
		}
	}
}

func (c *TCPConn) Write(b []byte) (int, error) {
	enter()
	p := c.wr
	w := c.p.w
	p.mu.Lock()
	if c.closed {
		p.mu.Unlock()
		return 0, errClosed
	}
	if p.err != nil {
		err := p.err
		p.mu.Unlock()
		return 0, &net.OpError{Op: "write", Net: "tcp", Err: err}
	}
	if p.eof {
		p.mu.Unlock()
		return 0, &net.OpError{Op: "write", Net: "tcp", Err: os.NewSyscallError("write", syscall.EPIPE)}
	}
	p.nseg++
	n := p.nseg
	data := append([]byte(nil), b...)
	p.mu.Unlock()
	c.p.send(c.isClient, n, data, false)
	_ = w
	return len(b), nil
}

func dirName(toServer bool) string {
	if toServer {
		return ">"
	}
	return "<"
}

// send queues one segment (or FIN) for delivery.
func (cp *connPair) send(toServer bool, n int, data []byte, fin bool) {
	w := cp.w
	p := cp.s2c
	if toServer {
		p = cp.c2s
	}
	key := cp.key + dirName(toServer) + itoa(n)
	verdict := SegDeliver
	if w.FramePolicy != nil && !fin {
		c := cp.client
		verdict = w.FramePolicy(c, toServer, n, data)
	}
	if w.OnSegment != nil && !fin {
		w.OnSegment(cp.client, toServer, n, data)
	}
	lat := w.latency(key, len(data))
	p.mu.Lock()
	if w.linkIsDown(cp.cNode, cp.sNode) || p.holding || verdict == SegHold {
		p.holding = true
		p.held = append(p.held, heldSeg{n, data, fin})
		p.mu.Unlock()
		w.trace("hold %s", key)
		return
	}
	at := w.Now() + lat
	if at <= p.lastAt {
		at = p.lastAt + 1
	}
	p.lastAt = at
	p.mu.Unlock()
	switch verdict {
	case SegResetBefore:
		w.Post(at, key+"!rst", func() { cp.Reset("policy") })
		return
	}
	w.Post(at, key, func() {
		// observers see the bytes before the reader is woken (the reader may finish
		// the whole operation before this goroutine runs again)
		p.mu.Lock()
		deliverable := p.err == nil && !p.rclosed && !fin
		p.mu.Unlock()
		if deliverable && w.OnDeliver != nil {
			w.OnDeliver(cp.client, toServer, n, data)
		}
		p.mu.Lock()
		if p.err == nil && !p.rclosed {
			if fin {
				p.eof = true
			} else {
				p.buf = append(p.buf, data...)
			}
		}
		p.cond.Broadcast()
		p.mu.Unlock()
		if verdict == SegResetAfter {
			cp.Reset("policy-after")
		}
	})
}

func (w *World) latency(key string, n int) time.Duration {
	if w.NetLatency != nil {
		return w.NetLatency(key, n)
	}
	return time.Duration(100_000 + w.Rand("lat:"+key)%400_000) // 0.1 .. 0.5 ms
}

func lkey(a, b *Node) string {
	x, y := "", ""
	if a != nil {
		x = a.Name
	}
	if b != nil {
		y = b.Name
	}
	if x > y {
		x, y = y, x
	}
	return x + "|" + y
}

func (w *World) linkIsDown(a, b *Node) bool {
	w.mu.Lock()
	defer w.mu.Unlock()
	return w.linkDown[lkey(a, b)]
}

// SetLink partitions or heals the link between two nodes. While down, TCP
// segments are held (not lost) and HTTP requests/responses are dropped.
func (w *World) SetLink(a, b *Node, down bool) {
	w.mu.Lock()
	w.linkDown[lkey(a, b)] = down
	var cps []*connPair
	if !down {
		for _, k := range sortedKeys(w.conns) {
			cp := w.conns[k]
			if lkey(cp.cNode, cp.sNode) == lkey(a, b) {
				cps = append(cps, cp)
			}
		}
	}
	w.mu.Unlock()
	w.trace("link %s down=%v", lkey(a, b), down)
	for _, cp := range cps {
		cp.ReleaseHeld()
	}
}

// ReleaseHeld delivers all held segments of both directions (in order).
func (cp *connPair) ReleaseHeld() {
	for _, toServer := range []bool{true, false} {
		p := cp.s2c
		if toServer {
			p = cp.c2s
		}
		p.mu.Lock()
		held := p.held
		p.held = nil
		p.holding = false
		p.mu.Unlock()
		for _, h := range held {
			cp.sendNoPolicy(toServer, h.n, h.data, h.fin)
		}
	}
}

func (cp *connPair) sendNoPolicy(toServer bool, n int, data []byte, fin bool) {
	w := cp.w
	p := cp.s2c
	if toServer {
		p = cp.c2s
	}
	key := cp.key + dirName(toServer) + itoa(n) + "r"
	lat := w.latency(key, len(data))
	p.mu.Lock()
	at := w.Now() + lat
	if at <= p.lastAt {
		at = p.lastAt + 1
	}
	p.lastAt = at
	p.mu.Unlock()
	w.Post(at, key, func() {
		// observers see the bytes before the reader is woken (the reader may finish
		// the whole operation before this goroutine runs again)
		p.mu.Lock()
		deliverable := p.err == nil && !p.rclosed && !fin
		p.mu.Unlock()
		if deliverable && w.OnDeliver != nil {
			w.OnDeliver(cp.client, toServer, n, data)
		}
		p.mu.Lock()
		if p.err == nil && !p.rclosed {
			if fin {
				p.eof = true
			} else {
				p.buf = append(p.buf, data...)
			}
		}
		p.cond.Broadcast()
		p.mu.Unlock()
	})
}

// HoldDirection makes every later segment in the given direction queue up until
// ReleaseHeld is called (a stalled peer / black-holed path).
func (c *TCPConn) HoldDirection(toServer bool) {
	p := c.p.s2c
	if toServer {
		p = c.p.c2s
	}
	p.mu.Lock()
	p.holding = true
	p.mu.Unlock()
	c.p.w.trace("holddir %s %v", c.p.key, toServer)
}

func (c *TCPConn) ReleaseHeld() { c.p.ReleaseHeld() }

// Reset aborts the connection: both ends see errors immediately.
func (cp *connPair) Reset(why string) {
	cp.w.trace("reset %s %s", cp.key, why)
	for _, p := range []*pipe{cp.c2s, cp.s2c} {
		p.mu.Lock()
		if p.err == nil {
			p.err = errReset
		}
		p.held = nil
		p.cond.Broadcast()
		p.mu.Unlock()
	}
	cp.w.mu.Lock()
	cp.reset = true
	delete(cp.w.conns, cp.key)
	cp.w.mu.Unlock()
}

func (c *TCPConn) Reset(why string) { c.p.Reset(why) }

func (c *TCPConn) CloseRead() error {
	enter()
	p := c.rd
	p.mu.Lock()
	p.rclosed = true
	p.buf = nil
	p.cond.Broadcast()
	p.mu.Unlock()
	return nil
}

func (c *TCPConn) CloseWrite() error {
	enter()
	p := c.wr
	p.mu.Lock()
	if p.eof || c.closed {
		p.mu.Unlock()
		return nil
	}
	p.nseg++
	n := p.nseg
	p.mu.Unlock()
	c.p.send(c.isClient, n, nil, true)
	return nil
}

func (c *TCPConn) Close() error {
	enter()
	c.rd.mu.Lock()
	already := c.closed
	c.closed = true
	c.rd.cond.Broadcast()
	c.rd.mu.Unlock()
	if already {
		return errClosed
	}
	// FIN to the peer
	p := c.wr
	p.mu.Lock()
	sendFin := !p.eof && p.err == nil
	var n int
	if sendFin {
		p.nseg++
		n = p.nseg
	}
	p.mu.Unlock()
	if sendFin {
		c.p.send(c.isClient, n, nil, true)
	}
	return nil
}

// ---------------------------------------------------------------- listener

type TCPListener struct {
	w      *World
	node   *Node
	addr   string
	mu     sync.Mutex
	cond   *sync.Cond
	q      []*TCPConn
	closed bool
}

func hostOf(a string) string {
	if i := strings.LastIndex(a, ":"); i >= 0 {
		return a[:i]
	}
	return a
}

// ListenTCP replaces net.ListenTCP.
func ListenTCP(network string, laddr *net.TCPAddr) (*TCPListener, error) {
	g := enter()
	w := Cur()
	if w == nil {
		return nil, errors.New("simrt: no world")
	}
	a := laddr.String()
	var node *Node
	if g != nil {
		node = g.Node
	}
	l := &TCPListener{w: w, node: node, addr: a}
	l.cond = sync.NewCond(&l.mu)
	w.mu.Lock()
	if old := w.listeners[a]; old != nil && !old.closed {
		w.mu.Unlock()
		return nil, fmt.Errorf("listen tcp %s: bind: address already in use", a)
	}
	w.listeners[a] = l
	w.mu.Unlock()
	w.trace("listen %s", a)
	return l, nil
}

func (l *TCPListener) AcceptTCP() (*TCPConn, error) {
	enter()
	l.mu.Lock()
	defer l.mu.Unlock()
	for {
		if l.closed {
			return nil, errClosed
		}
		if len(l.q) > 0 {
			c := l.q[0]
			l.q = l.q[1:]
			return c, nil
		}
		l.cond.Wait()
		if l.node != nil && l.node.dead {
			l.mu.Unlock()
			parkForever(l.w)
		}
	}
}

func (l *TCPListener) Accept() (net.Conn, error) { return l.AcceptTCP() }
func (l *TCPListener) Addr() net.Addr            { return addr{l.addr} }
func (l *TCPListener) Close() error {
	l.mu.Lock()
	l.closed = true
	l.cond.Broadcast()
	l.mu.Unlock()
	return nil
}

// Dial replaces net.Dial.
func Dial(network, address string) (net.Conn, error) {
	g := enter()
	w := Cur()
	if w == nil {
		return nil, errors.New("simrt: no world")
	}
	var from *Node
	fromName := "ext"
	fromIP := "0.0.0.0"
	if g != nil && g.Node != nil {
		from = g.Node
		fromName = from.Name
		fromIP = from.IP
	}
	w.mu.Lock()
	l := w.listeners[address]
	var to *Node
	if l != nil {
		to = l.node
	}
	refused := l == nil || l.closed || (to != nil && to.dead)
	down := w.linkDown[lkey(from, to)]
	w.mu.Unlock()
	if refused {
		w.trace("dial %s->%s refused", fromName, address)
		return nil, &net.OpError{Op: "dial", Net: "tcp", Err: os.NewSyscallError("connect", syscall.ECONNREFUSED)}
	}
	if down {
		// SYN black-holed: the real dial would time out; jiva uses no dial timeout,
		// so model it as a long stall followed by a timeout error.
		Sleep(60 * time.Second)
		return nil, &net.OpError{Op: "dial", Net: "tcp", Err: os.NewSyscallError("connect", syscall.ETIMEDOUT)}
	}
	k := w.Counter("dial:" + fromName + ">" + address) // only for the ephemeral port number
	key := fmt.Sprintf("tcp:%s>%s#%s", fromName, address, w.GSeq(g, "dial>"+address))
	cp := &connPair{key: key, cNode: from, sNode: to, c2s: newPipe(), s2c: newPipe(), w: w}
	cl := &TCPConn{p: cp, isClient: true, rd: cp.s2c, wr: cp.c2s, local: addr{fmt.Sprintf("%s:%d", fromIP, 40000+k)}, remote: addr{address}}
	sv := &TCPConn{p: cp, isClient: false, rd: cp.c2s, wr: cp.s2c, local: addr{address}, remote: cl.local}
	cp.client, cp.server = cl, sv
	w.mu.Lock()
	w.conns[key] = cp
	w.mu.Unlock()
	w.trace("dial %s", key)
	w.After(w.latency(key+":syn", 0), key+":accept", func() {
		l.mu.Lock()
		if l.closed {
			l.mu.Unlock()
			cp.Reset("listener closed")
			return
		}
		l.q = append(l.q, sv)
		l.cond.Broadcast()
		l.mu.Unlock()
	})
	return cl, nil
}

// Conns returns the live connections sorted by key.
func (w *World) Conns() []*TCPConn {
	w.mu.Lock()
	defer w.mu.Unlock()
	var out []*TCPConn
	for _, k := range sortedKeys(w.conns) {
		out = append(out, w.conns[k].client)
	}
	return out
}

// KillNode marks the node dead: its goroutines park at their next simrt entry,
// its listeners close, its connections reset (the peer sees ECONNRESET), its
// HTTP servers disappear. File descriptors are handled by the harness.
func (w *World) KillNode(n *Node, why string) {
	w.mu.Lock()
	if n.dead {
		w.mu.Unlock()
		return
	}
	n.dead = true
	n.Exited = true
	n.ExitedBy = why
	w.stopTimersLocked(n, false)
	var ls []*TCPListener
	for _, k := range sortedKeys(w.listeners) {
		if l := w.listeners[k]; l.node == n {
			ls = append(ls, l)
			delete(w.listeners, k)
		}
	}
	var cps []*connPair
	for _, k := range sortedKeys(w.conns) {
		if cp := w.conns[k]; cp.cNode == n || cp.sNode == n {
			cps = append(cps, cp)
		}
	}
	for _, k := range sortedKeys(w.https) {
		if w.https[k].node == n {
			delete(w.https, k)
		}
	}
	var resets []*inflightHTTP
	for _, k := range sortedKeys(w.inflight) {
		if x := w.inflight[k]; x.node == n {
			resets = append(resets, x)
			delete(w.inflight, k)
		}
	}
	w.mu.Unlock()
	for _, x := range resets {
		select {
		case x.res <- httpResult{nil, fmt.Errorf("read tcp %s: read: connection reset by peer", x.addr)}:
		default:
		}
	}
	w.trace("kill %s %s", n.Name, why)
	for _, l := range ls {
		l.Close()
	}
	for _, cp := range cps {
		cp.Reset("node " + n.Name + " died")
	}
}
