package simrt

import (
	"fmt"
	"sort"
)

func sortedKeys[V any](m map[string]V) []string {
	ks := make([]string, 0, len(m))
	for k := range m {
		ks = append(ks, k)
	}
	sort.Strings(ks)
	return ks
}

// Keys replaces map iteration in the instrumented copy: keys in sorted order,
// then (if the world asks for it) permuted by a keyed hash of the call site and
// a per-site counter.
func Keys[M ~map[K]V, K comparable, V any](m M, site string) []K {
	ks := make([]K, 0, len(m))
	for k := range m {
		ks = append(ks, k)
	}
	if len(ks) < 2 {
		return ks
	}
	ss := make([]string, len(ks))
	for i, k := range ks {
		ss[i] = fmt.Sprint(k)
	}
	idx := make([]int, len(ks))
	for i := range idx {
		idx[i] = i
	}
	sort.Slice(idx, func(a, b int) bool { return ss[idx[a]] < ss[idx[b]] })
	w := Cur()
	if w != nil && w.KeysPerm {
		g := CurG()
		gn := ""
		if g != nil {
			gn = g.Name
		}
		c := w.Counter("keys:" + site + ":" + gn)
		// Fisher-Yates with keyed draws
		for i := len(idx) - 1; i > 0; i-- {
			j := int(w.Rand(fmt.Sprintf("keys:%s:%s:%d:%d", site, gn, c, i)) % uint64(i+1))
			idx[i], idx[j] = idx[j], idx[i]
		}
	}
	out := make([]K, len(ks))
	for i, j := range idx {
		out[i] = ks[j]
	}
	return out
}

// ---------------------------------------------------------------- per-node globals

var nodeVarInit = map[string]func() interface{}{}

// SetNodeVarInit registers a constructor (returning *T) for a per-node global.
func SetNodeVarInit(key string, f func() interface{}) { nodeVarInit[key] = f }

// NodeVar returns the calling node's private copy of a process-global
// variable; goroutines outside any node get the global itself.
func NodeVar[T any](key string, g *T) *T {
	cg := enter()
	if cg == nil || cg.Node == nil {
		return g
	}
	n := cg.Node
	w := n.w
	w.mu.Lock()
	defer w.mu.Unlock()
	if v, ok := n.vars[key]; ok {
		return v.(*T)
	}
	var p *T
	if f := nodeVarInit[key]; f != nil {
		p = f().(*T)
	} else {
		p = new(T)
		*p = *g
	}
	n.vars[key] = p
	return p
}

// ---------------------------------------------------------------- hooks

// Hook is called by the replaced error-inject package.
func Hook(name string, args ...interface{}) {
	g := enter()
	w := Cur()
	if w == nil || w.HookFn == nil {
		return
	}
	w.HookFn(g, name, args...)
}

// HookBool is for hooks with a boolean answer.
var HookBoolFn func(name string) bool

func HookBool(name string) bool {
	if HookBoolFn != nil {
		return HookBoolFn(name)
	}
	return false
}

// ---------------------------------------------------------------- R9: UUIDs

// UUID replaces satori/go.uuid.UUID and google/uuid.UUID in the instrumented
// copy: names that jiva derives from random UUIDs (automatic snapshots, replica
// identities) take part in sorted map iteration, so they must be a function of
// the run's seed and of the (deterministic) order in which they are drawn.
type UUID [16]byte

func (u UUID) String() string {
	return fmt.Sprintf("%x-%x-%x-%x-%x", u[0:4], u[4:6], u[6:8], u[8:10], u[10:16])
}

func NewUUID() UUID {
	var u UUID
	w := Cur()
	if w == nil {
		panic("simrt.NewUUID outside a world")
	}
	// keyed by the drawing goroutine's own sequence (see GSeq), not by a per-node counter
	id := w.GSeq(CurG(), "uuid")
	a, b := w.Rand("uuid:"+id+":a"), w.Rand("uuid:"+id+":b")
	for i := 0; i < 8; i++ {
		u[i], u[8+i] = byte(a>>(8*i)), byte(b>>(8*i))
	}
	u[6] = (u[6] & 0x0f) | 0x40
	u[8] = (u[8] & 0x3f) | 0x80
	return u
}
