package simrt

import (
	"fmt"
	"io"
	"os"
	"syscall"
	"time"
)

// R10: the disk seam. jiva opens every chain data file (head, snapshots, backing
// file) through replica.(*Replica).openFile, which returns the interface
// types.DiffDisk. The instrumented copy wraps that value, so that the simulator
// can make a single data-file read or write fail the way a real disk does:
// EIO, ENOSPC, or a short (torn) write that applies a block-aligned prefix and
// then fails. Metadata files and the revision counter are not opened this way;
// their failures are injected at system-call granularity by the crash engine.

// Disk has the method set of jiva's types.DiffDisk.
type Disk interface {
	io.ReaderAt
	io.WriterAt
	io.Closer
	Fd() uintptr
}

// DiskVerdict is the simulator's decision for one data-file call.
type DiskVerdict int

const (
	DiskOK     DiskVerdict = iota
	DiskEIO                // nothing transferred, EIO
	DiskENOSPC             // writes only: nothing written, ENOSPC
	DiskShort              // writes only: the first half (rounded down to 4 KiB, at least nothing) is written, then EIO
	DiskSlow               // the call takes World.DiskSlowFor(call) of simulated time, then succeeds (a stalling disk)
)

// DiskCall describes one call for World.DiskFn.
type DiskCall struct {
	G     *G
	Path  string
	Write bool
	Off   int64
	Len   int
}

type faultDisk struct {
	Disk
	path string
}

// WrapDisk is applied to the result of sparse.NewDirectFileIoProcessor inside
// Replica.openFile.
func WrapDisk(d Disk, err error) (Disk, error) {
	if err != nil {
		return nil, err
	}
	p, _ := os.Readlink(fmt.Sprintf("/proc/self/fd/%d", d.Fd()))
	return &faultDisk{Disk: d, path: p}, nil
}

func (f *faultDisk) verdict(write bool, off int64, n int) DiskVerdict {
	g := enter()
	w := Cur()
	if w == nil || w.DiskFn == nil {
		return DiskOK
	}
	c := DiskCall{G: g, Path: f.path, Write: write, Off: off, Len: n}
	v := w.DiskFn(c)
	if v == DiskSlow {
		d := 35 * time.Second
		if w.DiskSlowFor != nil {
			d = w.DiskSlowFor(c)
		}
		Sleep(d)
		return DiskOK
	}
	return v
}

func (f *faultDisk) ReadAt(p []byte, off int64) (int, error) {
	switch f.verdict(false, off, len(p)) {
	case DiskOK:
		return f.Disk.ReadAt(p, off)
	default:
		return 0, &os.PathError{Op: "read", Path: f.path, Err: syscall.EIO}
	}
}

func (f *faultDisk) WriteAt(p []byte, off int64) (int, error) {
	switch f.verdict(true, off, len(p)) {
	case DiskOK:
		return f.Disk.WriteAt(p, off)
	case DiskENOSPC:
		return 0, &os.PathError{Op: "write", Path: f.path, Err: syscall.ENOSPC}
	case DiskShort:
		k := (len(p) / 2) &^ 4095
		if k > 0 {
			if n, err := f.Disk.WriteAt(p[:k], off); err != nil {
				return n, err
			}
		}
		return k, &os.PathError{Op: "write", Path: f.path, Err: syscall.EIO}
	default:
		return 0, &os.PathError{Op: "write", Path: f.path, Err: syscall.EIO}
	}
}
