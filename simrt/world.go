// Package simrt is the runtime that the instrumented scratch copy of jiva links
// against. It owns every seam: locks, goroutine identity, network, HTTP, hooks,
// per-node globals and the discrete-event queue. It never reads a real clock
// and never draws from a sequential PRNG: every random choice is a keyed hash
// of (run seed, stable key) so that racy-but-commutative arrival orders inside
// one quiescent step cannot shift anyone else's draws.
package simrt

import (
	"container/heap"
	"fmt"
	"runtime"
	"sort"
	"strconv"
	"sync"
	"time"
)

// ---------------------------------------------------------------- goroutines

// G is the simulator's view of one goroutine.
type G struct {
	Name  string
	Node  *Node
	w     *World
	spawn int
	id    int64
	seq   map[string]int // per-goroutine sequence numbers (GSeq)
}

// Node is one simulated OS process.
type Node struct {
	Name string // e.g. "ctrl", "r1"
	IP   string
	Inc  int // incarnation
	dead bool
	vars map[string]interface{}
	Exit int // exit code if it called exit
	// Exited is true once the process called exit (logrus.Fatal) or was killed.
	Exited   bool
	ExitedBy string
	spawn    int
	w        *World
}

func (n *Node) Dead() bool { n.w.mu.Lock(); defer n.w.mu.Unlock(); return n.dead }

var (
	gmu   sync.Mutex
	gs    = map[int64]*G{}
	extra int
)

func goid() int64 {
	var buf [40]byte
	n := runtime.Stack(buf[:], false)
	// "goroutine 123 ["
	s := buf[10:n]
	var id int64
	for _, c := range s {
		if c < '0' || c > '9' {
			break
		}
		id = id*10 + int64(c-'0')
	}
	return id
}

// CurG returns the calling goroutine's record (nil for unregistered goroutines).
func CurG() *G {
	id := goid()
	gmu.Lock()
	g := gs[id]
	gmu.Unlock()
	return g
}

func register(g *G) {
	g.id = goid()
	gmu.Lock()
	gs[g.id] = g
	gmu.Unlock()
}

func unregister(g *G) {
	gmu.Lock()
	delete(gs, g.id)
	gmu.Unlock()
}

// Go replaces the `go` statement in instrumented code.
func Go(fn func()) {
	p := CurG()
	var name string
	var node *Node
	if p != nil {
		gmu.Lock()
		p.spawn++
		k := p.spawn
		gmu.Unlock()
		name = p.Name + "/" + strconv.Itoa(k)
		node = p.Node
	} else {
		gmu.Lock()
		extra++
		name = "ext" + strconv.Itoa(extra)
		gmu.Unlock()
	}
	GoNamed(node, name, fn)
}

// GoNamed starts fn on a goroutine attributed to node with a fixed name.
func GoNamed(node *Node, name string, fn func()) {
	g := &G{Name: name, Node: node, w: Cur()}
	go func() {
		register(g)
		defer unregister(g)
		defer func() {
			if r := recover(); r != nil {
				crashed(g, r)
			}
		}()
		enterG(g)
		fn()
	}()
}

// crashed records an unrecovered panic on goroutine g. Natively this would
// terminate the whole process, so the node is killed.
func crashed(g *G, r interface{}) {
	w := Cur()
	if w == nil {
		panic(r)
	}
	buf := make([]byte, 4096)
	buf = buf[:runtime.Stack(buf, false)]
	w.mu.Lock()
	who := "harness:" + g.Name
	if g.Node != nil {
		who = "node " + g.Node.Name + ": " + g.Name
	}
	w.Panics = append(w.Panics, fmt.Sprintf("%s: panic: %v\n%s", who, r, buf))
	w.mu.Unlock()
	w.logf("PANIC on %s: %v", g.Name, r)
	if g.Node != nil {
		n := g.Node
		w.Post(w.Now(), "panic:"+n.Name+":"+g.Name, func() { w.KillNode(n, "panic:"+g.Name) })
	}
}

// RunAs registers the calling goroutine under (node,name) for the duration of fn.
func RunAs(node *Node, name string, fn func()) {
	g := &G{Name: name, Node: node, w: Cur()}
	register(g)
	defer unregister(g)
	fn()
}

// enter is called at every simrt entry point: goroutines of dead nodes park.
func enter() *G {
	g := CurG()
	enterG(g)
	return g
}

func enterG(g *G) {
	if g == nil || g.w == nil {
		return
	}
	w := g.w
	w.mu.Lock()
	dead := w.closed || (g.Node != nil && g.Node.dead)
	w.mu.Unlock()
	if dead {
		parkForever(w)
	}
}

func parkForever(w *World) {
	<-w.never
}

// ---------------------------------------------------------------- world

type Event struct {
	At  time.Duration
	Key string
	Fn  func()
	idx int
}

type evHeap []*Event

func (h evHeap) Len() int { return len(h) }
func (h evHeap) Less(i, j int) bool {
	if h[i].At != h[j].At {
		return h[i].At < h[j].At
	}
	return h[i].Key < h[j].Key
}
func (h evHeap) Swap(i, j int)       { h[i], h[j] = h[j], h[i]; h[i].idx = i; h[j].idx = j }
func (h *evHeap) Push(x interface{}) { e := x.(*Event); e.idx = len(*h); *h = append(*h, e) }
func (h *evHeap) Pop() interface{} {
	o := *h
	e := o[len(o)-1]
	*h = o[:len(o)-1]
	return e
}

// World is one simulated run. Exactly one World is active per process at a time.
type World struct {
	mu    sync.Mutex
	Seed  uint64
	start time.Time
	never chan struct{}
	kick  chan struct{}
	q     evHeap
	Wait  func() // synctest.Wait, injected by the harness

	nodes map[string]*Node

	grants []granter // locks with a pending arbitration

	// network
	listeners map[string]*TCPListener
	https     map[string]*httpServer
	conns     map[string]*connPair
	counters  map[string]int
	linkDown  map[string]bool // "a|b"

	// policy hooks, all optional, all called with w.mu NOT held
	HookFn      func(g *G, name string, args ...interface{})
	OnAcquire   func(lock interface{}, g *G, write bool)
	OnRelease   func(lock interface{}, g *G, write bool)
	NetLatency  func(key string, n int) time.Duration
	HTTPPolicy  func(r *HTTPReqInfo) HTTPVerdict
	FramePolicy func(c *TCPConn, toServer bool, n int, data []byte) SegVerdict
	OnSegment   func(c *TCPConn, toServer bool, n int, data []byte)
	OnDeliver   func(c *TCPConn, toServer bool, n int, data []byte)
	OnFatal     func(g *G, msg string)
	DiskFn      func(c DiskCall) DiskVerdict // R10: verdict for one data-file read/write
	DiskSlowFor func(c DiskCall) time.Duration
	Log         func(format string, a ...interface{})
	LockJitter  time.Duration // upper bound of the simulated delay before each lock request (lock.go: jitter)
	// SelectJitter: upper bound (nanoseconds of simulated time) of a keyed delay AFTER a goroutine has received from
	// a channel in a rewritten select (select.go). With StrictLocks a goroutine that asks for a lock waits for
	// the next quiescent point, i.e. everybody else runs first; this delay explores the other order - the
	// receiver of a message dawdles while the sender goes on (takes its lock, decodes the next frame, ...).
	SelectJitter int
	StrictLocks bool          // every lock acquisition of a simulated goroutine is arbitrated at quiescence (lock.go)
	KeysPerm    bool          // permute map iteration order (seeded) instead of plain sorted order

	Fatals  []string
	Panics  []string
	Trace   []string // compact event log for determinism checks
	TraceOn bool
	Steps   int

	inflight map[string]*inflightHTTP
	closed   bool
	timers   map[int]*tracked
	timerSeq int
}

var (
	wmu sync.Mutex
	cur *World
)

// Cur returns the active world or nil.
func Cur() *World { wmu.Lock(); defer wmu.Unlock(); return cur }

// NewWorld must be called inside the bubble.
func NewWorld(seed uint64, wait func()) *World {
	w := &World{
		Seed: seed, start: time.Now(), never: make(chan struct{}), kick: make(chan struct{}, 1),
		Wait: wait, nodes: map[string]*Node{}, listeners: map[string]*TCPListener{},
		https: map[string]*httpServer{}, conns: map[string]*connPair{}, counters: map[string]int{},
		linkDown: map[string]bool{},
	}
	wmu.Lock()
	cur = w
	wmu.Unlock()
	return w
}

// Close deactivates the world: all tracked timers stop and every registered
// goroutine parks at its next simrt entry, so the bubble can end.
func (w *World) Close() {
	w.mu.Lock()
	w.closed = true
	w.stopTimersLocked(nil, true)
	w.mu.Unlock()
	wmu.Lock()
	if cur == w {
		cur = nil
	}
	wmu.Unlock()
}

func (w *World) Now() time.Duration { return time.Since(w.start) }

func (w *World) logf(format string, a ...interface{}) {
	if w.Log != nil {
		w.Log(format, a...)
	}
}

func (w *World) trace(format string, a ...interface{}) {
	if w.Log != nil {
		w.Log("trace: "+format, a...)
	}
	if w.TraceOn {
		s := fmt.Sprintf("%015d ", int64(w.Now())) + fmt.Sprintf(format, a...)
		w.mu.Lock()
		w.Trace = append(w.Trace, s)
		w.mu.Unlock()
	}
}

// TraceNote lets the harness add to the trace.
func (w *World) TraceNote(format string, a ...interface{}) { w.trace(format, a...) }

func (w *World) AddNode(name, ip string) *Node {
	w.mu.Lock()
	defer w.mu.Unlock()
	old := w.nodes[name]
	n := &Node{Name: name, IP: ip, vars: map[string]interface{}{}, w: w}
	if old != nil {
		n.Inc = old.Inc + 1
	}
	w.nodes[name] = n
	return n
}

func (w *World) Node(name string) *Node { w.mu.Lock(); defer w.mu.Unlock(); return w.nodes[name] }

func (w *World) nodeByIP(ip string) *Node {
	for _, n := range w.nodes {
		if n.IP == ip {
			return n
		}
	}
	return nil
}

// Counter returns a per-key monotonically increasing number (1,2,...).
func (w *World) Counter(key string) int {
	w.mu.Lock()
	defer w.mu.Unlock()
	w.counters[key]++
	return w.counters[key]
}

// Probes returns the counters whose key starts with "probe:" (reach probes set inside simrt).
func (w *World) Probes() map[string]int {
	w.mu.Lock()
	defer w.mu.Unlock()
	m := map[string]int{}
	for k, v := range w.counters {
		if len(k) > 6 && k[:6] == "probe:" {
			m[k[6:]] = v
		}
	}
	return m
}

// GSeq returns a stable identifier for "the n-th <what> done by the calling
// goroutine": goroutine names are stable (parent/index), and one goroutine's own
// sequence of actions is deterministic, whereas a counter shared by several
// goroutines of a node is handed out in scheduler order when they run inside the
// same quiescent step.
func (w *World) GSeq(g *G, what string) string {
	if g == nil {
		return fmt.Sprintf("ext.%d", w.Counter("gseq:"+what))
	}
	gmu.Lock()
	if g.seq == nil {
		g.seq = map[string]int{}
	}
	g.seq[what]++
	n := g.seq[what]
	gmu.Unlock()
	return fmt.Sprintf("%s.%d", g.Name, n)
}

// Post schedules fn at absolute simulated time at (>= now). Key must be stable.
func (w *World) Post(at time.Duration, key string, fn func()) {
	w.mu.Lock()
	heap.Push(&w.q, &Event{At: at, Key: key, Fn: fn})
	w.mu.Unlock()
	w.Kick()
}

// After schedules fn d from now.
func (w *World) After(d time.Duration, key string, fn func()) { w.Post(w.Now()+d, key, fn) }

func (w *World) Kick() {
	select {
	case w.kick <- struct{}{}:
	default:
	}
}

// Rand returns a keyed pseudo-random number: a pure function of (seed,key).
func (w *World) Rand(key string) uint64 { return Hash64(w.Seed, key) }

func Hash64(seed uint64, key string) uint64 {
	h := seed ^ 0x9e3779b97f4a7c15
	for i := 0; i < len(key); i++ {
		h ^= uint64(key[i])
		h *= 0x100000001b3
		h ^= h >> 29
	}
	// splitmix finaliser
	h += 0x9e3779b97f4a7c15
	h = (h ^ (h >> 30)) * 0xbf58476d1ce4e5b9
	h = (h ^ (h >> 27)) * 0x94d049bb133111eb
	return h ^ (h >> 31)
}

// Pump runs the event loop until done() reports true (evaluated at
// quiescence) or the simulated deadline passes. It returns false on deadline.
// It must run on a goroutine that never blocks on a simulated lock.
func (w *World) Pump(done func() bool, deadline time.Duration, onQuiescent func()) bool {
	for {
		w.Wait()
		if w.processGrants() {
			continue
		}
		w.Steps++
		if onQuiescent != nil {
			onQuiescent()
		}
		if done != nil && done() {
			return true
		}
		now := w.Now()
		if now >= deadline {
			return false
		}
		w.mu.Lock()
		var next *Event
		if len(w.q) > 0 {
			next = w.q[0]
		}
		if next != nil && next.At <= now {
			heap.Pop(&w.q)
			w.mu.Unlock()
			w.trace("ev %s", next.Key)
			next.Fn()
			continue
		}
		w.mu.Unlock()
		d := deadline - now
		if next != nil && next.At-now < d {
			d = next.At - now
		}
		// drain a stale kick, then sleep until the next event or a kick
		t := time.NewTimer(d)
		select {
		case <-t.C:
		case <-w.kick:
			t.Stop()
		}
	}
}

// PendingEvents returns the number of queued events.
func (w *World) PendingEvents() int { w.mu.Lock(); defer w.mu.Unlock(); return len(w.q) }

// ---------------------------------------------------------------- fatal / exit

// FatalError is raised (as a panic value) for conditions that are unrecoverable
// runtime fatals natively (unlock of unlocked mutex).
type FatalError struct{ Msg string }

func (e FatalError) Error() string { return e.Msg }

func fatal(msg string) {
	g := CurG()
	if w := Cur(); w != nil {
		w.mu.Lock()
		name := "?"
		if g != nil {
			name = g.Name
		}
		w.Fatals = append(w.Fatals, name+": "+msg)
		w.mu.Unlock()
		if w.OnFatal != nil {
			w.OnFatal(g, msg)
		}
	}
	panic(FatalError{msg})
}

// ExitCurrentNode is installed as logrus' ExitFunc: the calling goroutine's
// node dies; the goroutine never returns.
func ExitCurrentNode(code int) {
	g := CurG()
	if g == nil || g.Node == nil {
		// exit called by a goroutine not attributed to a node: record and stop it
		if w := Cur(); w != nil {
			w.mu.Lock()
			w.Fatals = append(w.Fatals, "exit("+strconv.Itoa(code)+") outside any node")
			w.mu.Unlock()
			parkForever(w)
		}
		runtime.Goexit()
	}
	w := g.Node.w
	w.logf("node %s exit(%d) by %s", g.Node.Name, code, g.Name)
	w.trace("exit %s %d", g.Node.Name, code)
	// The node dies at the next quiescent point of this instant, not in the middle of the step:
	// its other goroutines that are runnable right now finish what they are doing (up to their next
	// blocking point) whatever the Go scheduler's order, so the set of things the process did before
	// it died is a function of the seed.
	n := g.Node
	w.Post(w.Now(), "exit:"+n.Name+":"+g.Name, func() {
		w.KillNode(n, "exit:"+g.Name)
		w.mu.Lock()
		n.Exit = code
		w.mu.Unlock()
	})
	parkForever(w)
}

// sortedNodeNames is used wherever nodes are iterated.
func (w *World) sortedNodeNames() []string {
	var ns []string
	for n := range w.nodes {
		ns = append(ns, n)
	}
	sort.Strings(ns)
	return ns
}
