package simrt

import (
	"reflect"
	"time"
)

// R12: select statements with several receive cases. Go picks among the ready cases of a
// `select` with its own, unseedable random source; that made a run unrepeatable whenever two
// cases were ready (AddReplica after a lost register reply: both the retry ticker and the
// controller's "start" action are waiting). The instrumenter turns such a statement into
//
//	switch i, v := simrt.Select(site, ch0, ch1, ...); i { case 0: x := simrt.RecvAs(ch0, v); ... }
//
// Select polls the channels in an order drawn from the world's keyed hash (key: the calling
// goroutine's stable name, the site and its own sequence number there), so that which ready case wins
// is part of the seeded schedule, explored across runs and identical on replay. If nothing is ready
// it blocks in reflect.Select, which inside a synctest bubble is a durable block exactly like the
// statement it replaces.
func Select(site string, chans ...interface{}) (int, reflect.Value) {
	g := enter()
	n := len(chans)
	vals := make([]reflect.Value, n)
	for i, c := range chans {
		vals[i] = reflect.ValueOf(c)
	}
	start := 0
	step := 1
	if w := Cur(); w != nil && n > 1 {
		w.Counter("probe:select_executed")
		r := w.Rand("select:" + w.GSeq(g, "select:"+site))
		start = int(r % uint64(n))
		if (r>>32)&1 == 1 {
			step = n - 1
		}
	}
	for k, i := 0, start; k < n; k, i = k+1, (i+step)%n {
		if !vals[i].IsValid() || vals[i].IsNil() {
			continue
		}
		if x, ok := vals[i].TryRecv(); ok || x.IsValid() {
			if w := Cur(); w != nil {
				// reach probe: another case was ready as well, i.e. the keyed order decided (a lower bound: the
				// length of a timer channel is always 0, so a pending tick is only seen when it is the one taken)
				for j, v := range vals {
					if j != i && v.IsValid() && !v.IsNil() && v.Len() > 0 {
						w.Counter("probe:select_several_cases_ready")
						break
					}
				}
			}
			selectJitter(g, site)
			return i, x
		}
	}
	cases := make([]reflect.SelectCase, n)
	for i := range vals {
		cases[i] = reflect.SelectCase{Dir: reflect.SelectRecv, Chan: vals[i]}
	}
	i, x, _ := reflect.Select(cases)
	enterG(g)
	selectJitter(g, site)
	return i, x
}

func selectJitter(g *G, site string) {
	w := Cur()
	if w == nil || w.SelectJitter <= 0 {
		return
	}
	if d := w.Rand("seljit:"+w.GSeq(g, "seljit:"+site)) % uint64(2*w.SelectJitter+1); d > uint64(w.SelectJitter) {
		Sleep(time.Duration(d-uint64(w.SelectJitter)) * time.Nanosecond) // half of the receives: 1..SelectJitter ns
	}
}

// RecvAs converts the value Select received from c to c's element type.
func RecvAs[C ~chan T | ~<-chan T, T any](c C, v reflect.Value) T {
	var zero T
	if !v.IsValid() {
		return zero
	}
	if k := v.Kind(); (k == reflect.Interface || k == reflect.Ptr || k == reflect.Map || k == reflect.Slice || k == reflect.Chan || k == reflect.Func) && v.IsNil() {
		return zero
	}
	return v.Interface().(T)
}
