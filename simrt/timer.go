package simrt

import (
	"os"
	"path/filepath"
	"runtime"
	"time"
)

// R8: time.Sleep / time.After / time.NewTicker in the instrumented copy go
// through these wrappers. They use the bubble's fake clock unchanged; the only
// addition is bookkeeping so that a killed node's timers (and, at the end of a
// run, everybody's) are stopped: a dead process never wakes up again, and the
// bubble can end instead of spinning through jiva's polling loops forever.

type tracked struct {
	node   *Node
	timer  *time.Timer
	ticker *time.Ticker
}

func (w *World) track(t *tracked) int {
	w.mu.Lock()
	defer w.mu.Unlock()
	if w.closed || (t.node != nil && t.node.dead) {
		stopTracked(t)
		return -1
	}
	w.timerSeq++
	if w.timers == nil {
		w.timers = map[int]*tracked{}
	}
	w.timers[w.timerSeq] = t
	return w.timerSeq
}

func (w *World) untrack(id int) {
	if id < 0 {
		return
	}
	w.mu.Lock()
	delete(w.timers, id)
	w.mu.Unlock()
}

func stopTracked(t *tracked) {
	if t.timer != nil {
		t.timer.Stop()
	}
	if t.ticker != nil {
		t.ticker.Stop()
	}
}

// stopTimersLocked stops the timers of node n (everybody's if all).
func (w *World) stopTimersLocked(n *Node, all bool) {
	for id, t := range w.timers {
		if all || t.node == n {
			stopTracked(t)
			delete(w.timers, id)
		}
	}
}

func nodeOf(g *G) *Node {
	if g == nil {
		return nil
	}
	return g.Node
}

func Sleep(d time.Duration) {
	g := enter()
	w := Cur()
	if w == nil {
		time.Sleep(d)
		return
	}
	if traceSleeps {
		_, file, line, _ := runtime.Caller(1)
		gn := ""
		if g != nil {
			gn = g.Name
		}
		w.trace("sleep %v by %s at %s:%d", d, gn, filepath.Base(file), line)
	}
	t := time.NewTimer(d)
	id := w.track(&tracked{node: nodeOf(g), timer: t})
	<-t.C
	w.untrack(id)
	enterG(g)
}

var traceSleeps = os.Getenv("VERIF_TRACE_SLEEP") != ""

func After(d time.Duration) <-chan time.Time {
	g := enter()
	w := Cur()
	if w == nil {
		return time.After(d)
	}
	t := time.NewTimer(d)
	w.track(&tracked{node: nodeOf(g), timer: t})
	return t.C
}

func NewTicker(d time.Duration) *time.Ticker {
	g := enter()
	t := time.NewTicker(d)
	if w := Cur(); w != nil {
		w.track(&tracked{node: nodeOf(g), ticker: t})
	}
	return t
}

// PollPoint (R11) is inserted at the top of every loop that polls with Sleep: one
// nanosecond of simulated time, i.e. the loop continues at the next quiescent
// point, after every goroutine that was runnable in this step has run.
func PollPoint() {
	if Cur() == nil {
		return
	}
	Sleep(time.Nanosecond)
}
