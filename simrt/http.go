package simrt

import (
	"bytes"
	"errors"
	"fmt"
	"io"
	"net/http"
	"net/http/httptest"
	"runtime"
	"time"
)

// Simulated HTTP: the harness installs Transport{} as http.DefaultTransport;
// http.ListenAndServe is rewritten to ListenAndServe below. A request is two
// events: request delivery (the handler runs on a goroutine of the target
// node) and response delivery.

type httpServer struct {
	node    *Node
	addr    string
	handler http.Handler
}

type HTTPReqInfo struct {
	Key    string
	From   *Node
	To     *Node
	Addr   string
	Method string
	URL    string
	Body   []byte
}

type HTTPVerdict int

const (
	HTTPDeliver  HTTPVerdict = iota
	HTTPDropReq              // request never arrives; client waits for its own timeout
	HTTPDropResp             // handler runs, response is lost
	HTTPRefuse               // connection refused
	HTTPFail                 // the server answers 500 without running the handler (e.g. its disk is full)
)

// HTTPLogEntry records one request for oracles.
type HTTPLogEntry struct {
	Key, From, Addr, Method, URL string
	Status                       int
	Err                          string
	At                           time.Duration
	Body                         []byte
}

// ListenAndServe replaces http.ListenAndServe: registers the handler and blocks.
func ListenAndServe(address string, h http.Handler) error {
	g := enter()
	w := Cur()
	if w == nil {
		return errors.New("simrt: no world")
	}
	var node *Node
	if g != nil {
		node = g.Node
	}
	if len(address) > 0 && address[0] == ':' && node != nil {
		address = node.IP + address
	}
	w.mu.Lock()
	if _, ok := w.https[address]; ok {
		w.mu.Unlock()
		return fmt.Errorf("listen tcp %s: bind: address already in use", address)
	}
	w.https[address] = &httpServer{node: node, addr: address, handler: h}
	w.mu.Unlock()
	w.trace("http-listen %s", address)
	parkForever(w)
	return nil
}

// ServeOn registers a handler for address on node without blocking (harness stubs).
func (w *World) ServeOn(node *Node, address string, h http.Handler) {
	w.mu.Lock()
	w.https[address] = &httpServer{node: node, addr: address, handler: h}
	w.mu.Unlock()
}

// HasHTTP reports whether something listens on address.
func (w *World) HasHTTP(address string) bool {
	w.mu.Lock()
	defer w.mu.Unlock()
	_, ok := w.https[address]
	return ok
}

type Transport struct{}

// BlackHoleTimeout: how long a client without its own timeout waits on a
// black-holed HTTP exchange before the (simulated) kernel reports a timeout.
var BlackHoleTimeout = 120 * time.Second

type inflightHTTP struct {
	node *Node
	res  chan httpResult
	addr string
}

type httpResult struct {
	resp *http.Response
	err  error
}

func (Transport) RoundTrip(req *http.Request) (*http.Response, error) {
	g := enter()
	w := Cur()
	if w == nil {
		return nil, errors.New("simrt: no world")
	}
	var body []byte
	if req.Body != nil {
		body, _ = io.ReadAll(req.Body)
		req.Body.Close()
	}
	var from *Node
	fromName := "ext"
	if g != nil && g.Node != nil {
		from = g.Node
		fromName = from.Name
	}
	address := req.URL.Host
	key := fmt.Sprintf("http:%s>%s#%s", fromName, address, w.GSeq(g, "http>"+address))
	info := &HTTPReqInfo{Key: key, From: from, Addr: address, Method: req.Method, URL: req.URL.String(), Body: body}
	w.mu.Lock()
	srv := w.https[address]
	if srv != nil {
		info.To = srv.node
	}
	w.mu.Unlock()
	verdict := HTTPDeliver
	if w.HTTPPolicy != nil {
		verdict = w.HTTPPolicy(info)
	}
	w.trace("http %s %s %s v=%d", key, req.Method, req.URL.RequestURI(), verdict)
	res := make(chan httpResult, 1)
	refuse := func() {
		res <- httpResult{nil, fmt.Errorf("dial tcp %s: connect: connection refused", address)}
	}
	lat1 := w.latency(key+":req", len(body))
	// A black-holed exchange does not hang forever in reality: the kernel gives
	// up on the connection (SYN retries ~127s; established ~15min). Model the
	// short end: after BlackHoleTimeout the client sees a timeout error (unless
	// its own, shorter, timeout fired first).
	blackhole := func() {
		w.After(BlackHoleTimeout, key+":kernel-timeout", func() {
			select {
			case res <- httpResult{nil, fmt.Errorf("read tcp %s: read: connection timed out", address)}:
			default:
			}
		})
	}
	switch verdict {
	case HTTPFail:
		w.After(lat1+w.latency(key+":resp", 64), key+":fail", func() {
			rec := httptest.NewRecorder()
			rec.Header().Set("Content-Type", "application/json")
			rec.WriteHeader(500)
			rec.Body.WriteString(`{"type":"error","status":500,"code":"Server Error","message":"injected: no space left on device"}`)
			r := rec.Result()
			r.Request = req
			res <- httpResult{r, nil}
		})
	case HTTPRefuse:
		w.After(lat1, key+":refused", refuse)
	case HTTPDropReq:
		blackhole()
	default:
		w.After(lat1, key+":req", func() {
			w.mu.Lock()
			srv := w.https[address]
			dead := srv != nil && srv.node != nil && srv.node.dead
			down := srv != nil && w.linkDown[lkey(from, srv.node)]
			w.mu.Unlock()
			if srv == nil || dead {
				w.After(w.latency(key+":rst", 0), key+":refused", refuse)
				return
			}
			if down {
				blackhole()
				return
			}
			// the exchange is now "on" the server: if that process dies the client sees a reset
			w.mu.Lock()
			if w.inflight == nil {
				w.inflight = map[string]*inflightHTTP{}
			}
			w.inflight[key] = &inflightHTTP{node: srv.node, res: res, addr: address}
			w.mu.Unlock()
			hreq := httptest.NewRequest(req.Method, req.URL.String(), bytes.NewReader(body))
			hreq.Header = req.Header.Clone()
			hreq.RemoteAddr = fromName + ":0"
			GoNamed(srv.node, key+":h", func() {
				rec := httptest.NewRecorder()
				panicked := true
				func() {
					defer func() {
						if r := recover(); r != nil {
							if r == http.ErrAbortHandler {
								return
							}
							buf := make([]byte, 4096)
							buf = buf[:runtime.Stack(buf, false)]
							w.mu.Lock()
							w.Panics = append(w.Panics, fmt.Sprintf("%s %s %s: panic: %v\n%s", key, req.Method, req.URL.String(), r, buf))
							w.mu.Unlock()
							if fe, ok := r.(FatalError); ok {
								// natively a runtime fatal error: the process dies
								w.KillNode(srv.node, "fatal:"+fe.Msg)
							}
						}
					}()
					srv.handler.ServeHTTP(rec, hreq)
					panicked = false
				}()
				if verdict == HTTPDropResp {
					w.trace("http %s resp dropped", key)
					blackhole()
					return
				}
				w.After(w.latency(key+":resp", rec.Body.Len()), key+":resp", func() {
					w.mu.Lock()
					down := w.linkDown[lkey(from, srv.node)]
					w.mu.Unlock()
					if down {
						blackhole()
						return
					}
					if panicked {
						res <- httpResult{nil, fmt.Errorf("Get %q: EOF", req.URL.String())}
						return
					}
					r := rec.Result()
					r.Request = req
					res <- httpResult{r, nil}
				})
			})
		})
	}
	defer func() {
		w.mu.Lock()
		delete(w.inflight, key)
		w.mu.Unlock()
	}()
	select {
	case r := <-res:
		status := 0
		es := ""
		if r.resp != nil {
			status = r.resp.StatusCode
		}
		if r.err != nil {
			es = r.err.Error()
		}
		w.trace("http %s -> %d %s", key, status, es)
		return r.resp, r.err
	case <-req.Context().Done():
		w.trace("http %s ctx done", key)
		return nil, req.Context().Err()
	}
}
